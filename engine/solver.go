package main

import (
	"bufio"
	"fmt"
	"io"
	"os"
	"os/exec"
	"strconv"
	"strings"
	"time"
)

// Solver drives one long-lived SMT solver process over SMT-LIB2 text.
type Solver struct {
	kind    string
	cmd     *exec.Cmd
	in      io.WriteCloser
	out     *bufio.Reader
	ts      *TermStore
	defined map[int]bool // terms defined in current path scope
	vars    []*Term      // variables declared in current path scope
	tblDef  map[int]bool
	buf     strings.Builder
	log     io.Writer

	Queries  int
	Sat      int
	Unsat    int
	Time     time.Duration
	TimeoutS int
}

type SolverError struct{ Msg string }

func (e SolverError) Error() string { return "solver: " + e.Msg }

func NewSolver(kind string, ts *TermStore, timeoutS int) *Solver {
	s := &Solver{kind: kind, ts: ts, TimeoutS: timeoutS}
	s.start()
	return s
}

func (s *Solver) start() {
	var cmd *exec.Cmd
	switch s.kind {
	case "z3", "":
		cmd = exec.Command("z3", "-in", "-smt2")
	case "z3-new":
		cmd = exec.Command("z3-new", "-in", "-smt2")
	case "cvc5":
		cmd = exec.Command("cvc5", "--incremental", "--produce-models", "--lang=smt2", fmt.Sprintf("--tlimit-per=%d", s.TimeoutS*1000))
	default:
		panic("unknown solver " + s.kind)
	}
	in, err := cmd.StdinPipe()
	if err != nil {
		panic(err)
	}
	out, err := cmd.StdoutPipe()
	if err != nil {
		panic(err)
	}
	cmd.Stderr = os.Stderr
	if err := cmd.Start(); err != nil {
		panic(err)
	}
	s.cmd, s.in, s.out = cmd, in, bufio.NewReaderSize(out, 1<<16)
	s.defined = map[int]bool{}
	s.tblDef = map[int]bool{}
	s.vars = nil
	if p := os.Getenv("SYMGO_SMTLOG"); p != "" {
		f, _ := os.OpenFile(fmt.Sprintf("%s.%d", p, cmd.Process.Pid), os.O_CREATE|os.O_WRONLY|os.O_TRUNC, 0644)
		s.log = f
	}
	if s.kind == "cvc5" {
		s.send("(set-logic ALL)\n")
	} else {
		s.send("(set-option :produce-models true)\n")
		s.send(fmt.Sprintf("(set-option :timeout %d)\n", s.TimeoutS*1000))
	}
	s.send("(push 1)\n")
}

func (s *Solver) Close() {
	if s.cmd != nil {
		s.in.Close()
		s.cmd.Process.Kill()
		s.cmd.Wait()
		s.cmd = nil
	}
}

func (s *Solver) send(txt string) {
	if s.log != nil {
		io.WriteString(s.log, txt)
	}
	if _, err := io.WriteString(s.in, txt); err != nil {
		panic(SolverError{"write: " + err.Error()})
	}
}

// NewPath discards everything asserted/defined for the previous path.
func (s *Solver) NewPath() {
	s.send("(pop 1)\n(push 1)\n")
	s.defined = map[int]bool{}
	s.tblDef = map[int]bool{}
	s.vars = s.vars[:0]
}

// ref returns the SMT text naming t, emitting definitions as needed into s.buf.
func (s *Solver) ref(t *Term) string {
	switch t.Op {
	case OConst:
		return constStr(t)
	case OVar:
		if !s.defined[t.id] {
			s.defined[t.id] = true
			s.vars = append(s.vars, t)
			fmt.Fprintf(&s.buf, "(declare-const %s %s)\n", varSym(t.Name), sortOf(t.W))
		}
		return varSym(t.Name)
	}
	name := "t" + strconv.Itoa(t.id)
	if s.defined[t.id] {
		return name
	}
	// iterative post-order to avoid deep recursion
	type fr struct {
		t *Term
		i int
	}
	stack := []fr{{t, 0}}
	for len(stack) > 0 {
		f := &stack[len(stack)-1]
		if f.t.Op == OConst || f.t.Op == OVar || s.defined[f.t.id] {
			if f.t.Op == OVar {
				s.ref(f.t)
			}
			stack = stack[:len(stack)-1]
			continue
		}
		if f.i < len(f.t.A) {
			c := f.t.A[f.i]
			f.i++
			if c.Op != OConst && !s.defined[c.id] {
				stack = append(stack, fr{c, 0})
			}
			continue
		}
		s.emitDef(f.t)
		stack = stack[:len(stack)-1]
	}
	return name
}

func (s *Solver) argRef(t *Term) string {
	switch t.Op {
	case OConst:
		return constStr(t)
	case OVar:
		return s.ref(t)
	}
	return "t" + strconv.Itoa(t.id)
}

func (s *Solver) emitDef(t *Term) {
	var body string
	a := func(i int) string { return s.argRef(t.A[i]) }
	switch t.Op {
	case OExtract:
		body = fmt.Sprintf("((_ extract %d %d) %s)", t.C>>8, t.C&0xff, a(0))
	case OZext:
		body = fmt.Sprintf("((_ zero_extend %d) %s)", t.W-t.A[0].W, a(0))
	case OSext:
		body = fmt.Sprintf("((_ sign_extend %d) %s)", t.W-t.A[0].W, a(0))
	case OSelect:
		id := int(t.C)
		if !s.tblDef[id] {
			s.tblDef[id] = true
			tb := s.ts.tables[id]
			fmt.Fprintf(&s.buf, "(declare-const tbl%d (Array (_ BitVec 64) (_ BitVec %d)))\n", id, tb.W)
			for i, v := range tb.Vals {
				fmt.Fprintf(&s.buf, "(assert (= (select tbl%d #x%016x) %s))\n", id, i, constStr(&Term{Op: OConst, W: tb.W, C: v}))
			}
		}
		body = fmt.Sprintf("(select tbl%d %s)", id, a(0))
	default:
		nm, ok := opNames[t.Op]
		if !ok {
			panic("emitDef: bad op")
		}
		var sb strings.Builder
		sb.WriteString("(" + nm)
		for i := range t.A {
			sb.WriteString(" " + a(i))
		}
		sb.WriteString(")")
		body = sb.String()
	}
	fmt.Fprintf(&s.buf, "(define-fun t%d () %s %s)\n", t.id, sortOf(t.W), body)
	s.defined[t.id] = true
}

func (s *Solver) flushDefs() {
	if s.buf.Len() > 0 {
		s.send(s.buf.String())
		s.buf.Reset()
	}
}

// Assert adds t to the path condition.
func (s *Solver) Assert(t *Term) {
	if t.isTrue() {
		return
	}
	r := s.ref(t)
	s.flushDefs()
	s.send("(assert " + r + ")\n")
}

func (s *Solver) readLine() string {
	line, err := s.out.ReadString('\n')
	if err != nil {
		panic(SolverError{"read: " + err.Error()})
	}
	return strings.TrimSpace(line)
}

// Check asks whether pathcond ∧ extra is satisfiable. extra may be nil.
// Returns 1 sat, 0 unsat; panics SolverError on unknown/error.
func (s *Solver) Check(extra *Term) bool {
	st := time.Now()
	defer func() { s.Time += time.Since(st) }()
	s.Queries++
	if extra != nil && extra.isFalse() {
		s.Unsat++
		return false
	}
	if extra == nil || extra.isTrue() {
		s.flushDefs()
		s.send("(check-sat)\n")
	} else {
		var lit string
		if extra.Op == OBNot && extra.A[0].Op != OConst {
			lit = "(not " + s.ref(extra.A[0]) + ")"
		} else {
			lit = s.ref(extra)
		}
		s.flushDefs()
		s.send("(check-sat-assuming (" + lit + "))\n")
	}
	for {
		l := s.readLine()
		switch {
		case l == "sat":
			s.Sat++
			return true
		case l == "unsat":
			s.Unsat++
			return false
		case l == "":
			continue
		default:
			panic(SolverError{"unexpected answer: " + l})
		}
	}
}

// Model fetches values of all declared variables after a sat answer.
func (s *Solver) Model() map[string]uint64 {
	m := map[string]uint64{}
	if len(s.vars) == 0 {
		return m
	}
	var sb strings.Builder
	sb.WriteString("(get-value (")
	for _, v := range s.vars {
		sb.WriteString(varSym(v.Name) + " ")
	}
	sb.WriteString("))\n")
	s.send(sb.String())
	// read balanced s-expression
	var txt strings.Builder
	depth := 0
	started := false
	inQuote := false
	for {
		line, err := s.out.ReadString('\n')
		if err != nil {
			panic(SolverError{"read model: " + err.Error()})
		}
		for _, ch := range line {
			if ch == '|' {
				inQuote = !inQuote
			}
			if inQuote {
				continue
			}
			if ch == '(' {
				depth++
				started = true
			} else if ch == ')' {
				depth--
			}
		}
		txt.WriteString(line)
		if started && depth <= 0 {
			break
		}
	}
	str := txt.String()
	if strings.Contains(str, "(error") {
		panic(SolverError{"model error: " + str})
	}
	// parse pairs: (|name| value)
	i := 0
	for {
		j := strings.IndexByte(str[i:], '|')
		if j < 0 {
			break
		}
		j += i
		k := strings.IndexByte(str[j+1:], '|')
		if k < 0 {
			break
		}
		k += j + 1
		name := str[j+1 : k]
		rest := strings.TrimLeft(str[k+1:], " \n\t")
		var val uint64
		switch {
		case strings.HasPrefix(rest, "#x"):
			e := 2
			for e < len(rest) && isHex(rest[e]) {
				e++
			}
			val, _ = strconv.ParseUint(rest[2:e], 16, 64)
		case strings.HasPrefix(rest, "#b"):
			e := 2
			for e < len(rest) && (rest[e] == '0' || rest[e] == '1') {
				e++
			}
			val, _ = strconv.ParseUint(rest[2:e], 2, 64)
		case strings.HasPrefix(rest, "true"):
			val = 1
		case strings.HasPrefix(rest, "false"):
			val = 0
		case strings.HasPrefix(rest, "(_ bv"):
			e := 5
			for e < len(rest) && rest[e] >= '0' && rest[e] <= '9' {
				e++
			}
			val, _ = strconv.ParseUint(rest[5:e], 10, 64)
		default:
			panic(SolverError{"cannot parse model value: " + rest[:min(len(rest), 40)]})
		}
		m[name] = val
		i = k + 1
	}
	return m
}

func isHex(c byte) bool {
	return (c >= '0' && c <= '9') || (c >= 'a' && c <= 'f') || (c >= 'A' && c <= 'F')
}
