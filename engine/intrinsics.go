package main

import (
	"crypto/sha1"
	"fmt"
	"go/types"
	"strings"

	"golang.org/x/tools/go/ssa"
)

var initAllow = map[string]bool{
	"github.com/gobwas/ws": true, "github.com/gobwas/ws/wsutil": true, "github.com/gobwas/ws/wsflate": true,
	"github.com/gobwas/httphead": true, "io": true, "errors": true, "bufio": true, "bytes": true,
	"strings": true, "strconv": true, "unicode/utf8": true, "encoding/binary": true, "encoding/base64": true,
	"math/bits": true, "io/ioutil": true, "context": true, "net/http": false, "compress/flate": true, "sort": true, "math": true, "sync": false,
}

// globals of non-initialised packages that may be read as their zero value / modelled value
func (w *Worker) globalObj(g *ssa.Global) int {
	if id, ok := w.globals[g]; ok {
		return id
	}
	w.initDepth++
	o := w.allocType(g.Type().Underlying().(*types.Pointer).Elem())
	o.Tag = g.String()
	if pos := g.Pos(); pos.IsValid() && strings.Contains(w.prog.Fset.Position(pos).Filename, "zz_verif_") {
		o.Tag = "" // harness-owned global: not library state
	}
	w.initDepth--
	w.globals[g] = o.ID
	if g.Pkg != nil {
		w.ensureInit(g.Pkg)
	}
	return o.ID
}

func (w *Worker) ensureInit(p *ssa.Package) {
	if w.initState[p] != 0 {
		return
	}
	w.initState[p] = 1
	path := p.Pkg.Path()
	if !initAllow[path] {
		w.initState[p] = 2
		w.specialInit(p)
		return
	}
	fn := p.Func("init")
	if fn == nil {
		w.initState[p] = 2
		return
	}
	w.initDepth++
	saved := w.stack
	w.stack = nil
	func() {
		defer func() {
			w.initDepth--
			w.stack = saved
		}()
		w.callFunction(fn, nil, nil)
	}()
	w.initState[p] = 2
}

// specialInit sets up the few globals of packages whose init is not executed.
func (w *Worker) specialInit(p *ssa.Package) {
	switch p.Pkg.Path() {
	case "net/http":
		if g, ok := p.Members["NoBody"].(*ssa.Global); ok {
			if t, ok := p.Members["noBody"].(*ssa.Type); ok {
				id := w.globalObj(g)
				w.initDepth++
				w.store(Ptr{id, 0}, w.zero(t.Type()), t.Type())
				w.initDepth--
			}
		}
		// error sentinels used by the repo
		for _, name := range []string{"ErrNotSupported", "ErrHijacked", "ErrBodyNotAllowed"} {
			if g, ok := p.Members[name].(*ssa.Global); ok {
				id := w.globalObj(g)
				w.initDepth++
				w.store(Ptr{id, 0}, w.newError("http."+name), g.Type().Underlying().(*types.Pointer).Elem())
				w.initDepth--
			}
		}
	}
}

// newError builds an opaque error value (a *errors.errorString-like object).
func (w *Worker) newError(text string) Val {
	ep := w.eng.pkgs["errors"]
	if ep == nil {
		panic(engineError{"errors package not loaded"})
	}
	t := ep.Type("errorString")
	pt := types.NewPointer(t.Type())
	o := w.allocType(t.Type())
	o.Leaves[0] = w.strConst(text)
	return Iface{T: pt, V: Ptr{o.ID, 0}}
}

func (w *Worker) argStr(v Val) string {
	s, ok := w.concreteStr(v.(Str))
	if !ok {
		panic(engineError{"harness string argument must be concrete"})
	}
	return s
}

func (w *Worker) freshVar(name string, wd int) *Term {
	w.varCnt[name]++
	full := fmt.Sprintf("%s#%d", name, w.varCnt[name])
	w.varWidths[full] = wd
	return w.ts.Var(full, wd)
}

func (w *Worker) sliceBytes(s Slice) []*Term {
	r := make([]*Term, s.Len)
	for i := range r {
		r[i] = w.byteAt(s.Obj, s.Off+i)
	}
	return r
}

func (w *Worker) strBytes(s Str) []*Term {
	r := make([]*Term, s.Len)
	for i := range r {
		r[i] = w.byteAt(s.Obj, s.Off+i)
	}
	return r
}

func (w *Worker) bytesOf(v Val) []*Term {
	switch x := v.(type) {
	case Slice:
		return w.sliceBytes(x)
	case Str:
		return w.strBytes(x)
	}
	panic(engineError{fmt.Sprintf("bytesOf %T", v)})
}

func (w *Worker) bytesEq(a, b []*Term) *Term {
	if len(a) != len(b) {
		return w.ts.False
	}
	r := w.ts.True
	for i := range a {
		r = w.ts.And(r, w.ts.Eq(a[i], b[i]))
	}
	return r
}

func (w *Worker) foldLower(b *Term) *Term {
	ts := w.ts
	isUp := ts.And(ts.Cmp(OUle, ts.Const(8, 'A'), b), ts.Cmp(OUle, b, ts.Const(8, 'Z')))
	return ts.Ite(isUp, ts.Bin(OOr, b, ts.Const(8, 0x20)), b)
}

// intrinsic intercepts calls to modelled functions.
func (w *Worker) intrinsic(fn *ssa.Function, args []Val) (Val, bool) {
	ts := w.ts
	name := fn.Name()
	// harness runtime
	if len(name) > 1 && name[0] == 'v' && name[1] >= 'A' && name[1] <= 'Z' && fn.Pkg != nil && strings.HasPrefix(fn.Pkg.Pkg.Path(), "github.com/gobwas/ws") {
		if r, ok := w.rtIntrinsic(name, args); ok {
			return r, true
		}
	}
	if fn.Synthetic == "package initializer" && len(w.stack) > 0 {
		// lazy: dependencies are initialised on first use of one of their globals
		return nil, true
	}
	full := fn.String()
	if w.funcsSeen != nil && !w.isHarnessFn(fn) {
		w.funcsSeen[shortFn(full)] = true
	}
	switch full {
	case "github.com/gobwas/ws.btsToString", "github.com/gobwas/ws/wsutil.btsToString":
		s := args[0].(Slice)
		return Str{s.Obj, s.Off, s.Len}, true
	case "github.com/gobwas/ws.strToBytes", "github.com/gobwas/ws/wsutil.strToBytes":
		s := args[0].(Str)
		if s.Len == 0 {
			return Slice{}, true
		}
		return Slice{s.Obj, s.Off, s.Len, s.Len, 1}, true
	case "bytes.IndexByte", "internal/bytealg.IndexByte", "strings.IndexByte", "internal/bytealg.IndexByteString":
		return w.indexByte(w.bytesOf(args[0]), args[1].(*Term)), true
	case "internal/bytealg.Compare", "bytes.Compare", "strings.Compare", "internal/bytealg.CompareString":
		a, oka := w.concreteStrBytes(toStr(args[0]))
		b, okb := w.concreteStrBytes(toStr(args[1]))
		if !oka || !okb {
			panic(engineError{"bytes.Compare on symbolic data"})
		}
		r := 0
		if string(a) < string(b) {
			r = -1
		} else if string(a) > string(b) {
			r = 1
		}
		return ts.Const(64, uint64(int64(r))), true
	case "internal/bytealg.Count", "internal/bytealg.CountString":
		bs := w.bytesOf(args[0])
		c := args[1].(*Term)
		r := ts.Const(64, 0)
		for _, b := range bs {
			r = ts.Bin(OAdd, r, ts.Ite(ts.Eq(b, c), ts.Const(64, 1), ts.Const(64, 0)))
		}
		return r, true
	case "bytes.Equal", "internal/bytealg.Equal":
		return w.bytesEq(w.bytesOf(args[0]), w.bytesOf(args[1])), true
	case "bytes.EqualFold", "strings.EqualFold":
		a, b := w.bytesOf(args[0]), w.bytesOf(args[1])
		if len(a) != len(b) {
			return ts.False, true
		}
		// ASCII folding only: bytes >= 0x80 are compared exactly (non-ASCII case folding outside claim)
		r := ts.True
		for i := range a {
			r = ts.And(r, ts.Eq(w.foldLower(a[i]), w.foldLower(b[i])))
		}
		return r, true
	case "math/rand.Uint32":
		if w.randConcrete {
			return ts.Const(32, uint64(w.rng.Uint32())), true
		}
		return w.freshVar("rand.Uint32", 32), true
	case "math/rand.Read", "crypto/rand.Read":
		s := args[0].(Slice)
		o := w.mut(s.Obj)
		if w.randConcrete {
			// the very bytes the native run gets after rand.Seed(42) (see vRandConcrete)
			buf := make([]byte, s.Len)
			w.rng.Read(buf)
			for i := 0; i < s.Len; i++ {
				o.Leaves[s.Off+i] = ts.Const(8, uint64(buf[i]))
			}
		} else {
			for i := 0; i < s.Len; i++ {
				o.Leaves[s.Off+i] = w.freshVar("rand.Read", 8)
			}
		}
		return Tuple{ts.Const(64, uint64(s.Len)), Iface{}}, true
	case "(*sync.Pool).Get":
		// the item most recently Put into this pool, if any (what a single goroutine observes
		// natively when no GC intervenes, and the behaviour that exposes stale state in recycled
		// objects); otherwise p.New() if set, else nil
		p := args[0].(Ptr)
		pk := fmt.Sprintf("%d:%d", p.Obj, p.Off)
		if items := w.syncPools[pk]; len(items) > 0 {
			it := items[len(items)-1]
			w.syncPools[pk] = items[:len(items)-1]
			return it, true
		}
		pt := fn.Signature.Recv().Type().Underlying().(*types.Pointer).Elem()
		st := pt.Underlying().(*types.Struct)
		for i := 0; i < st.NumFields(); i++ {
			if st.Field(i).Name() == "New" {
				nf := w.load(Ptr{p.Obj, p.Off + w.fieldOffset(st, i)}, st.Field(i).Type()).(*Closure)
				if nf == nil {
					return Iface{}, true
				}
				return w.callFunction(nf.Fn, nil, nf.Bind), true
			}
		}
		return Iface{}, true
	case "(*sync.Pool).Put":
		p := args[0].(Ptr)
		pk := fmt.Sprintf("%d:%d", p.Obj, p.Off)
		if w.syncPools == nil {
			w.syncPools = map[string][]Val{}
		}
		w.syncPools[pk] = append(w.syncPools[pk], args[1])
		return nil, true
	case "(*sync.Mutex).Lock", "(*sync.Mutex).Unlock", "(*sync.RWMutex).Lock", "(*sync.RWMutex).Unlock", "(*sync.RWMutex).RLock", "(*sync.RWMutex).RUnlock":
		return nil, true
	case "(*sync.Once).Do":
		p := args[0].(Ptr)
		key := fmt.Sprintf("once:%d:%d", p.Obj, p.Off)
		if w.onceDone == nil {
			w.onceDone = map[string]bool{}
		}
		if !w.onceDone[key] {
			w.onceDone[key] = true
			f := args[1].(*Closure)
			w.inOnce++
			w.callFunction(f.Fn, nil, f.Bind)
			w.inOnce--
		}
		return nil, true
	case "fmt.Errorf":
		return w.newError("fmt.Errorf:" + w.fmtText(args)), true
	case "fmt.Sprintf":
		return w.strConst(w.fmtText(args)), true
	case "fmt.Sprint", "fmt.Sprintln":
		return w.strConst("<fmt.Sprint>"), true
	case "crypto/sha1.Sum":
		b, ok := w.concreteBytes(args[0].(Slice))
		if !ok {
			panic(engineError{"sha1.Sum of symbolic data (harnesses must use concrete keys)"})
		}
		sum := sha1.Sum(b)
		tp := make(Tuple, 20)
		for i := range tp {
			tp[i] = ts.Const(8, uint64(sum[i]))
		}
		return tp, true
	case "crypto/sha1.New":
		return Iface{T: types.NewPointer(w.sha1Type()), V: Ptr{w.allocSha().ID, 0}}, true
	case "unicode/utf8.ValidString", "unicode/utf8.Valid":
		bs := w.bytesOf(args[0])
		if len(bs) <= 4 {
			return nil, false // short inputs run the real stdlib code
		}
		return w.utf8ValidTerm(bs), true
	case "internal/bytealg.MakeNoZero":
		n := int(w.concretize(args[0].(*Term), "MakeNoZero"))
		o := w.allocElems(types.Typ[types.Uint8], n)
		return Slice{o.ID, 0, n, n, 1}, true
	case "time.Now":
		if w.modelFor(fn) != nil {
			return nil, false
		}
		// no harness model (vModel_time_Now) in this package: a fixed instant (no monotonic reading)
		return Tuple{ts.Const(64, 0), ts.Const(64, 63_800_000_000), Ptr{}}, true
	case "runtime.SetFinalizer":
		return nil, true
	case "errors.Is":
		return w.errorsIs(args[0].(Iface), args[1].(Iface), 0), true
	case "fmt.Fprintf", "fmt.Fprint", "fmt.Fprintln":
		var txt string
		if full == "fmt.Fprintf" {
			txt = w.fmtText(args[1:])
		} else {
			if va, ok := args[1].(Slice); ok {
				for i := 0; i < va.Len; i++ {
					if i > 0 && full == "fmt.Fprintln" {
						txt += " "
					}
					txt += w.fmtArg(w.obj(va.Obj).Leaves[va.Off+i])
				}
			}
			if full == "fmt.Fprintln" {
				txt += "\n"
			}
		}
		wr := args[0].(Iface)
		if wr.T == nil {
			w.goPanic("nil-deref", "fmt.Fprint to nil writer")
		}
		m := w.prog.LookupMethod(wr.T, nil, "Write")
		r := w.callFunction(m, []Val{wr.V, w.newBytes([]byte(txt))}, nil)
		return r, true
	case "sort.Slice", "sort.SliceStable":
		w.sortSlice(args[0].(Iface), args[1].(*Closure))
		return nil, true
	case "runtime.KeepAlive", "runtime.GC", "runtime.Gosched":
		return nil, true
	}
	if strings.HasPrefix(full, "sync/atomic.") {
		if r, ok := w.atomicIntrinsic(fn, args); ok {
			return r, true
		}
	}
	if strings.HasPrefix(full, "(*sync.Map).") {
		return w.syncMapIntrinsic(fn.Name(), args), true
	}
	if strings.HasPrefix(full, "github.com/gobwas/pool") || strings.HasPrefix(full, "(*github.com/gobwas/pool") {
		if r, ok := w.poolIntrinsic(full, fn, args); ok {
			return r, true
		}
	}
	if strings.HasPrefix(full, "time.") || strings.HasPrefix(full, "(time.") || strings.HasPrefix(full, "(*time.") ||
		strings.HasPrefix(full, "context.") || strings.HasPrefix(full, "(*context.") {
		if r, ok := w.timeIntrinsic(full, fn, args); ok {
			return r, true
		}
	}
	return nil, false
}

// fmtText renders format + concrete args approximately (used for error texts only).
func (w *Worker) fmtText(args []Val) string {
	f, ok := w.concreteStr(args[0].(Str))
	if !ok {
		return "<symbolic format>"
	}
	var parts []string
	if len(args) > 1 {
		if va, ok := args[1].(Slice); ok {
			for i := 0; i < va.Len; i++ {
				v := w.obj(va.Obj).Leaves[va.Off+i]
				parts = append(parts, w.fmtArg(v))
			}
		}
	}
	// substitute verbs in order
	var sb strings.Builder
	ai := 0
	for i := 0; i < len(f); i++ {
		if f[i] == '%' && i+1 < len(f) {
			if f[i+1] == '%' {
				sb.WriteByte('%')
				i++
				continue
			}
			j := i + 1
			for j < len(f) && strings.IndexByte("+-# 0123456789.", f[j]) >= 0 {
				j++
			}
			if j < len(f) {
				if ai < len(parts) {
					if f[j] == 'q' {
						sb.WriteString("\"" + parts[ai] + "\"")
					} else {
						sb.WriteString(parts[ai])
					}
					ai++
				} else {
					sb.WriteString("%!" + string(f[j]) + "(MISSING)")
				}
				i = j
				continue
			}
		}
		sb.WriteByte(f[i])
	}
	return sb.String()
}

func (w *Worker) fmtArg(v Val) string {
	switch x := v.(type) {
	case Iface:
		if x.T == nil {
			return "<nil>"
		}
		// error values: call Error() if available and concrete
		if s, ok := x.V.(Str); ok {
			if str, ok := w.concreteStr(s); ok {
				return str
			}
			return "<sym>"
		}
		if t, ok := x.V.(*Term); ok {
			if t.IsConst() {
				if _, signed, isInt := intType(x.T); isInt && signed {
					return fmt.Sprint(sext64(t.C, t.W))
				}
				if t.W == 0 {
					return fmt.Sprint(t.C != 0)
				}
				return fmt.Sprint(t.C)
			}
			return "<sym>"
		}
		if sl, ok := x.V.(Slice); ok {
			if b, ok := w.concreteBytes(sl); ok {
				return string(b)
			}
			return "<sym>"
		}
		if w.prog.MethodSets.MethodSet(x.T).Lookup(nil, "Error") == nil {
			return "<" + x.T.String() + ">"
		}
		if m := w.prog.LookupMethod(x.T, nil, "Error"); m != nil {
			r := w.callFunction(m, []Val{x.V}, nil)
			if s, ok := r.(Str); ok {
				if str, ok := w.concreteStr(s); ok {
					return str
				}
			}
			return "<sym>"
		}
		if sl, ok := x.V.(Slice); ok {
			if b, ok := w.concreteBytes(sl); ok {
				return string(b)
			}
			return "<sym>"
		}
		return "<" + x.T.String() + ">"
	}
	return "<?>"
}

func (w *Worker) indexByte(hay []*Term, c *Term) Val {
	ts := w.ts
	// result = first i with hay[i]==c else -1; as an ite chain (no forking)
	res := ts.Const(64, ^uint64(0))
	for i := len(hay) - 1; i >= 0; i-- {
		res = ts.Ite(ts.Eq(hay[i], c), ts.Const(64, uint64(i)), res)
	}
	return res
}

// ---- pool model ----

func (w *Worker) poolGetBytes(n, c int) Val {
	// pool.New(128, 65536) with log mapping: sizes 128..65536 are pooled (ceil to power of two)
	size := c
	pooled := false
	if c <= 65536 {
		p := 1
		for p < c {
			p <<= 1
		}
		if p >= 128 && p <= 65536 {
			size = p
			pooled = true
		}
	}
	o := w.newObj(size)
	o.ByteObj = true
	if pooled {
		o.Garbage = true
		o.Pooled = 1
		o.Tag = fmt.Sprintf("pbytes[%d]", size)
		w.poolLive[o.ID] = true
	} else {
		z := w.ts.Const(8, 0)
		for i := range o.Leaves {
			o.Leaves[i] = z
		}
	}
	return Slice{o.ID, 0, n, size, 1}
}

func (w *Worker) poolIntrinsic(full string, fn *ssa.Function, args []Val) (Val, bool) {
	ts := w.ts
	ci := func(v Val) int {
		t := v.(*Term)
		return int(int64(w.concretize(t, "pool size")))
	}
	// sz: a size handed to the byte pool ends up in make([]byte, n) (directly for sizes outside
	// the pooled classes, through the pool's New otherwise): same run-time check as makeslice,
	// same engine allocation bound
	sz := func(v Val) int {
		t := v.(*Term)
		bad := ts.Not(ts.Cmp(OUle, t, ts.Const(64, uint64(maxAlloc))))
		if bad.isTrue() {
			w.goPanic("makeslice", "makeslice: len out of range (pbytes)")
		}
		if !bad.isFalse() {
			w.oblige(bad, "makeslice", "makeslice: len out of range (pbytes)")
		}
		if !t.IsConst() {
			w.assume(ts.Cmp(OUle, t, ts.Const(64, engineAllocCap)))
		}
		n := int(int64(w.concretize(t, "pool size")))
		if n > engineAllocCap {
			w.notes["allocation of more than 4Mi elements not followed (engine bound) in "+shortFn(w.libSite())] = true
			panic(pathEnd{"alloc-bound"})
		}
		return n
	}
	switch full {
	case "github.com/gobwas/pool/pbytes.GetLen":
		n := sz(args[0])
		return w.poolGetBytes(n, n), true
	case "github.com/gobwas/pool/pbytes.GetCap":
		return w.poolGetBytes(0, sz(args[0])), true
	case "github.com/gobwas/pool/pbytes.Get":
		n, c := sz(args[0]), sz(args[1])
		if n > c {
			w.goPanic("explicit", "requested length is greater than capacity")
		}
		return w.poolGetBytes(n, c), true
	case "github.com/gobwas/pool/pbytes.Put":
		s := args[0].(Slice)
		if s.Obj != 0 {
			o := w.obj(s.Obj)
			if o.Pooled >= 2 { // released (2), or released and since recycled (3)
				w.poolViolation("pooled buffer released twice")
			}
			// a buffer whose cap is a pooled size class is retained by the pool
			if o.Pooled == 1 || (s.Cap >= 128 && s.Cap <= 65536 && s.Cap&(s.Cap-1) == 0) {
				mo := w.mut(s.Obj)
				mo.Pooled = 2
				delete(w.poolLive, s.Obj)
			}
		}
		return nil, true
	case "github.com/gobwas/pool.New", "github.com/gobwas/pool.Custom", "github.com/gobwas/pool/pbytes.New", "github.com/gobwas/pool/pbufio.NewWriterPool", "github.com/gobwas/pool/pbufio.NewReaderPool":
		o := w.newObj(1)
		o.Leaves[0] = ts.Const(64, 0)
		o.Tag = "pool"
		return Ptr{o.ID, 0}, true
	case "(*github.com/gobwas/pool.Pool).Get":
		// generic pool used by wsutil.writers (pool.New(128, 65536)): size classes are the powers
		// of two in [128, 65536]; Get returns the item most recently Put into the class (what a
		// single goroutine observes natively), nil when the class is empty or does not exist; the
		// returned size is the class as the real mapping computes it
		n := ci(args[1])
		class := false
		if n <= 65536 {
			p := 1
			for p < n {
				p <<= 1
			}
			if p >= 128 {
				n = p
				class = true
			}
		}
		if class {
			pk := fmt.Sprintf("gpool:%d:%d", args[0].(Ptr).Obj, n)
			if items := w.syncPools[pk]; len(items) > 0 {
				it := items[len(items)-1]
				w.syncPools[pk] = items[:len(items)-1]
				return Tuple{it, ts.Const(64, uint64(n))}, true
			}
		}
		return Tuple{Iface{}, ts.Const(64, uint64(n))}, true
	case "(*github.com/gobwas/pool.Pool).Put":
		n := ci(args[2])
		if n >= 128 && n <= 65536 && n&(n-1) == 0 {
			if w.syncPools == nil {
				w.syncPools = map[string][]Val{}
			}
			pk := fmt.Sprintf("gpool:%d:%d", args[0].(Ptr).Obj, n)
			w.syncPools[pk] = append(w.syncPools[pk], args[1])
		}
		return nil, true
	case "github.com/gobwas/pool/pbufio.GetReader":
		n := ci(args[1])
		return w.callNamed("bufio", "NewReaderSize", []Val{args[0], ts.Const(64, uint64(pbufioSize(n)))}), true
	case "github.com/gobwas/pool/pbufio.GetWriter":
		n := ci(args[1])
		return w.callNamed("bufio", "NewWriterSize", []Val{args[0], ts.Const(64, uint64(pbufioSize(n)))}), true
	case "github.com/gobwas/pool/pbufio.PutReader":
		// bufio.Reader.Reset(nil) as the real Put does; the buffer becomes pool property
		w.releaseBufio(args[0], "Reader")
		return nil, true
	case "github.com/gobwas/pool/pbufio.PutWriter":
		w.releaseBufio(args[0], "Writer")
		return nil, true
	}
	return nil, false
}

func pbufioSize(n int) int {
	if n <= 65536 {
		p := 1
		for p < n {
			p <<= 1
		}
		if p >= 256 {
			return p
		}
	}
	return n
}

func (w *Worker) callNamed(pkg, name string, args []Val) Val {
	p := w.eng.pkgs[pkg]
	if p == nil {
		panic(engineError{"package not loaded: " + pkg})
	}
	fn := p.Func(name)
	if fn == nil {
		panic(engineError{"function not found: " + pkg + "." + name})
	}
	return w.callFunction(fn, args, nil)
}

// releaseBufio marks the buffer of a bufio.Reader/Writer returned to pbufio as released.
func (w *Worker) releaseBufio(v Val, kind string) {
	p, ok := v.(Ptr)
	if !ok || p.IsNil() {
		return
	}
	bp := w.eng.pkgs["bufio"]
	t := bp.Type(kind).Type()
	st := t.Underlying().(*types.Struct)
	for i := 0; i < st.NumFields(); i++ {
		if st.Field(i).Name() == "buf" {
			s := w.load(Ptr{p.Obj, p.Off + w.fieldOffset(st, i)}, st.Field(i).Type()).(Slice)
			if s.Obj != 0 && s.Cap >= 256 && s.Cap <= 65536 && s.Cap&(s.Cap-1) == 0 {
				mo := w.mut(s.Obj)
				if mo.Pooled >= 2 {
					w.poolViolation("pooled bufio buffer released twice")
				}
				mo.Pooled = 2
				mo.Tag = "pbufio." + kind
			}
		}
	}
}

func (w *Worker) sha1Type() types.Type { panic(engineError{"sha1.New unsupported"}) }
func (w *Worker) allocSha() *Obj      { panic(engineError{"sha1.New unsupported"}) }

// utf8ValidTerm models unicode/utf8.Valid for longer inputs as the Unicode Table 3-7
// automaton (branch-free term); inputs of <= 4 bytes execute the real stdlib code.
func (w *Worker) utf8ValidTerm(bs []*Term) *Term {
	ts := w.ts
	c := func(v uint64) *Term { return ts.Const(8, v) }
	in := func(b *Term, lo, hi uint64) *Term {
		return ts.And(ts.Cmp(OUle, c(lo), b), ts.Cmp(OUle, b, c(hi)))
	}
	st := c(0)
	for _, b := range bs {
		if b.IsConst() && st.IsConst() && st.C == 0 && b.C < 0x80 {
			continue
		}
		fromStart := ts.Ite(ts.Cmp(OUle, b, c(0x7f)), c(0),
			ts.Ite(in(b, 0xC2, 0xDF), c(1),
				ts.Ite(ts.Eq(b, c(0xE0)), c(4),
					ts.Ite(ts.Or(in(b, 0xE1, 0xEC), in(b, 0xEE, 0xEF)), c(2),
						ts.Ite(ts.Eq(b, c(0xED)), c(5),
							ts.Ite(ts.Eq(b, c(0xF0)), c(6),
								ts.Ite(in(b, 0xF1, 0xF3), c(3),
									ts.Ite(ts.Eq(b, c(0xF4)), c(7), c(8)))))))))
		cont := in(b, 0x80, 0xBF)
		eq := func(v uint64) *Term { return ts.Eq(st, c(v)) }
		st = ts.Ite(eq(0), fromStart,
			ts.Ite(eq(1), ts.Ite(cont, c(0), c(8)),
				ts.Ite(eq(2), ts.Ite(cont, c(1), c(8)),
					ts.Ite(eq(3), ts.Ite(cont, c(2), c(8)),
						ts.Ite(eq(4), ts.Ite(in(b, 0xA0, 0xBF), c(1), c(8)),
							ts.Ite(eq(5), ts.Ite(in(b, 0x80, 0x9F), c(1), c(8)),
								ts.Ite(eq(6), ts.Ite(in(b, 0x90, 0xBF), c(2), c(8)),
									ts.Ite(eq(7), ts.Ite(in(b, 0x80, 0x8F), c(2), c(8)), c(8)))))))))
	}
	return ts.Eq(st, c(0))
}

func toStr(v Val) Str {
	switch x := v.(type) {
	case Str:
		return x
	case Slice:
		return Str{x.Obj, x.Off, x.Len}
	}
	panic(engineError{"toStr"})
}

// atomicIntrinsic: sync/atomic primitives with sequential semantics (threads are cooperative).
func (w *Worker) atomicIntrinsic(fn *ssa.Function, args []Val) (Val, bool) {
	name := fn.Name()
	if fn.Signature.Recv() != nil || len(args) == 0 {
		return nil, false
	}
	pt, ok := fn.Signature.Params().At(0).Type().Underlying().(*types.Pointer)
	if !ok {
		return nil, false
	}
	et := pt.Elem()
	p := args[0]
	switch {
	case strings.HasPrefix(name, "Load"):
		return w.load(p, et), true
	case strings.HasPrefix(name, "Store"):
		w.store(p, args[1], et)
		return nil, true
	case strings.HasPrefix(name, "Add"):
		old := w.load(p, et).(*Term)
		nv := w.ts.Bin(OAdd, old, args[1].(*Term))
		w.store(p, nv, et)
		return nv, true
	case strings.HasPrefix(name, "And"), strings.HasPrefix(name, "Or"):
		old := w.load(p, et).(*Term)
		op := OAnd
		if strings.HasPrefix(name, "Or") {
			op = OOr
		}
		w.store(p, w.ts.Bin(op, old, args[1].(*Term)), et)
		return old, true
	case strings.HasPrefix(name, "Swap"):
		old := w.load(p, et)
		w.store(p, args[1], et)
		return old, true
	case strings.HasPrefix(name, "CompareAndSwap"):
		old := w.load(p, et)
		eq := w.valEq(old, args[1], et)
		if w.branch(eq) {
			w.store(p, args[2], et)
			return w.ts.True, true
		}
		return w.ts.False, true
	}
	return nil, false
}

// syncMapIntrinsic models sync.Map with concrete keys (sequential semantics); a write to a
// sync.Map that is package-level state counts as a write to shared state (obligation O1).
func (w *Worker) syncMapIntrinsic(name string, args []Val) Val {
	ts := w.ts
	p := args[0].(Ptr)
	key := fmt.Sprintf("%d:%d", p.Obj, p.Off)
	if w.syncMaps == nil {
		w.syncMaps = map[string]*MapVal{}
	}
	m := w.syncMaps[key]
	if m == nil {
		m = &MapVal{KeyV: map[string]Val{}, Vals: map[string]Val{}}
		w.syncMaps[key] = m
	}
	wrote := func() {
		if o, ok := w.baseObjs[p.Obj]; ok {
			w.noteGlobalWrite(o.Tag)
		}
	}
	switch name {
	case "Load":
		k := w.mapKey(args[1])
		if v, ok := m.Vals[k]; ok {
			return Tuple{v, ts.True}
		}
		return Tuple{Iface{}, ts.False}
	case "Store":
		k := w.mapKey(args[1])
		if _, ok := m.Vals[k]; !ok {
			m.Keys = append(m.Keys, k)
		}
		m.KeyV[k], m.Vals[k] = args[1], args[2]
		wrote()
		return nil
	case "LoadOrStore":
		k := w.mapKey(args[1])
		if v, ok := m.Vals[k]; ok {
			return Tuple{v, ts.True}
		}
		m.Keys = append(m.Keys, k)
		m.KeyV[k], m.Vals[k] = args[1], args[2]
		wrote()
		return Tuple{args[2], ts.False}
	case "LoadAndDelete":
		k := w.mapKey(args[1])
		v, ok := m.Vals[k]
		delete(m.Vals, k)
		delete(m.KeyV, k)
		if ok {
			wrote()
			return Tuple{v, ts.True}
		}
		return Tuple{Iface{}, ts.False}
	case "Delete":
		k := w.mapKey(args[1])
		if _, ok := m.Vals[k]; ok {
			wrote()
		}
		delete(m.Vals, k)
		delete(m.KeyV, k)
		return nil
	case "Range":
		f := args[1].(*Closure)
		for _, k := range append([]string(nil), m.Keys...) {
			v, ok := m.Vals[k]
			if !ok {
				continue
			}
			r := w.callFunction(f.Fn, []Val{m.KeyV[k], v}, f.Bind)
			if t, ok := r.(*Term); ok && t.isFalse() {
				break
			}
		}
		return nil
	}
	panic(engineError{"sync.Map." + name + " not modelled"})
}

// errorsIs: errors.Is without reflection: equality, then an Is method, then Unwrap.
func (w *Worker) errorsIs(err, target Iface, depth int) *Term {
	ts := w.ts
	if err.T == nil || target.T == nil {
		return ts.Bool(err.T == nil && target.T == nil)
	}
	if depth > 16 {
		return ts.False
	}
	if types.Identical(err.T, target.T) && types.Comparable(err.T) {
		eq := w.valEq(err.V, target.V, err.T)
		if w.branch(eq) {
			return ts.True
		}
	}
	ms := w.prog.MethodSets.MethodSet(err.T)
	if sel := ms.Lookup(nil, "Is"); sel != nil {
		if m := w.prog.MethodValue(sel); m != nil && m.Signature.Params().Len() == 1 {
			r := w.callFunction(m, []Val{err.V, target}, nil)
			if t, ok := r.(*Term); ok && w.branch(t) {
				return ts.True
			}
		}
	}
	if sel := ms.Lookup(nil, "Unwrap"); sel != nil {
		if m := w.prog.MethodValue(sel); m != nil && m.Signature.Params().Len() == 0 {
			r := w.callFunction(m, []Val{err.V}, nil)
			if inner, ok := r.(Iface); ok {
				return w.errorsIs(inner, target, depth+1)
			}
		}
	}
	return ts.False
}

// sortSlice: sort.Slice by insertion sort over the slice's leaves, calling the real less closure.
func (w *Worker) sortSlice(x Iface, less *Closure) {
	sl, ok := x.V.(Slice)
	if !ok || sl.Len < 2 {
		return
	}
	st := sl.Stride
	if st == 0 {
		st = 1
	}
	lessAt := func(i, j int) bool {
		r := w.callFunction(less.Fn, []Val{w.ts.Const(64, uint64(i)), w.ts.Const(64, uint64(j))}, less.Bind)
		return w.branch(r.(*Term))
	}
	for i := 1; i < sl.Len; i++ {
		for j := i; j > 0 && lessAt(j, j-1); j-- {
			o := w.mut(sl.Obj)
			a, b := sl.Off+j*st, sl.Off+(j-1)*st
			for k := 0; k < st; k++ {
				o.Leaves[a+k], o.Leaves[b+k] = o.Leaves[b+k], o.Leaves[a+k]
			}
		}
	}
}
