package main

import (
	"fmt"
	"math/rand"

	"golang.org/x/tools/go/ssa"
)

// rtIntrinsic implements the harness runtime (v* functions of zz_verif_rt.go).
func (w *Worker) rtIntrinsic(name string, args []Val) (Val, bool) {
	ts := w.ts
	switch name {
	case "vU8":
		return w.freshVar(w.argStr(args[0]), 8), true
	case "vU16":
		return w.freshVar(w.argStr(args[0]), 16), true
	case "vU32":
		return w.freshVar(w.argStr(args[0]), 32), true
	case "vU64":
		return w.freshVar(w.argStr(args[0]), 64), true
	case "vInt":
		return w.freshVar(w.argStr(args[0]), 64), true
	case "vBool":
		return w.freshVar(w.argStr(args[0]), 0), true
	case "vBytes":
		nm := w.argStr(args[0])
		n := int(w.concretize(args[1].(*Term), "vBytes length"))
		o := w.newObj(n)
		o.ByteObj = true
		for i := 0; i < n; i++ {
			o.Leaves[i] = w.freshVar(fmt.Sprintf("%s[%d]", nm, i), 8)
		}
		if n == 0 {
			return Slice{o.ID, 0, 0, 0, 1}, true
		}
		return Slice{o.ID, 0, n, n, 1}, true
	case "vChoose":
		k := int(w.concretize(args[1].(*Term), "vChoose arity"))
		return ts.Const(64, uint64(w.choose(k))), true
	case "vAssume":
		w.assume(args[0].(*Term))
		return nil, true
	case "vAssert":
		id := w.argStr(args[1])
		w.reached = append(w.reached, id)
		c := args[0].(*Term)
		w.traces = append(w.traces, traceTerm{"assert:" + id, c})
		w.checkProp(ts.Not(c), id, "assert", w.curHarnessSite(), "assertion "+id+" violated")
		return nil, true
	case "vTrace":
		id := w.argStr(args[0])
		w.traces = append(w.traces, traceTerm{id, args[1].(*Term)})
		return nil, true
	case "vTraceBytes":
		id := w.argStr(args[0])
		bs := w.bytesOf(args[1])
		w.traces = append(w.traces, traceTerm{id + ".len", ts.Const(64, uint64(len(bs)))})
		for i, b := range bs {
			w.traces = append(w.traces, traceTerm{fmt.Sprintf("%s[%d]", id, i), b})
		}
		return nil, true
	case "vCover":
		w.covers = append(w.covers, w.argStr(args[0]))
		return nil, true
	case "vAnd":
		return ts.And(args[0].(*Term), args[1].(*Term)), true
	case "vOr":
		return ts.Or(args[0].(*Term), args[1].(*Term)), true
	case "vNot":
		return ts.Not(args[0].(*Term)), true
	case "vImplies":
		return ts.Or(ts.Not(args[0].(*Term)), args[1].(*Term)), true
	case "vIte":
		return ts.Ite(args[0].(*Term), args[1].(*Term), args[2].(*Term)), true
	case "vIte8":
		return ts.Ite(args[0].(*Term), args[1].(*Term), args[2].(*Term)), true
	case "vIteBool":
		return ts.Ite(args[0].(*Term), args[1].(*Term), args[2].(*Term)), true
	case "vEqBytes":
		return w.bytesEq(w.bytesOf(args[0]), w.bytesOf(args[1])), true
	case "vEqStr":
		return w.bytesEq(w.bytesOf(args[0]), w.bytesOf(args[1])), true
	case "vConcrete":
		return ts.Const(64, w.concretize(args[0].(*Term), "vConcrete")), true
	case "vSameMem":
		a, b := args[0].(Slice), args[1].(Slice)
		if a.Obj == 0 || b.Obj == 0 || a.Obj != b.Obj || a.Len == 0 || b.Len == 0 {
			return ts.False, true
		}
		return ts.Bool(a.Off < b.Off+b.Len && b.Off < a.Off+a.Len), true
	case "vPoisonPools":
		w.poisonPools()
		return nil, true
	case "vExpectPanic":
		f := args[0].(*Closure)
		return ts.Bool(w.expectPanic(f)), true
	case "vRandConcrete":
		w.randConcrete = args[0].(*Term).isTrue()
		if w.randConcrete {
			w.rng = rand.New(rand.NewSource(42))
		}
		return nil, true
	case "vCallBounded":
		// vCallBounded(id, f, unblock): run f; if every thread blocks forever inside, that is a
		// violation of assertion id (natively: a watchdog reports it)
		id := w.argStr(args[0])
		f := args[1].(*Closure)
		old := w.deadlockID
		w.deadlockID = id
		w.reached = append(w.reached, id)
		w.callFunction(f.Fn, nil, f.Bind)
		w.deadlockID = old
		w.traces = append(w.traces, traceTerm{"assert:" + id, ts.True})
		return ts.True, true
	case "vFreezeShared":
		for _, o := range w.objs {
			o.Frozen = true
		}
		return nil, true
	case "vRetryStop":
		return nil, true
	case "vRetry":
		// vRetry(n, f): the engine forks over scheduling choices itself, so f runs once
		f := args[1].(*Closure)
		w.callFunction(f.Fn, nil, f.Bind)
		return nil, true
	case "vYield":
		w.yield("vYield")
		return nil, true
	case "vWait":
		f := args[0].(*Closure)
		w.blockUntil("vWait", func() bool {
			r := w.callFunction(f.Fn, nil, f.Bind)
			t, ok := r.(*Term)
			if !ok || !t.IsConst() {
				panic(engineError{"vWait predicate must be concrete"})
			}
			return t.isTrue()
		})
		return nil, true
	case "vThreads":
		return ts.Const(64, uint64(w.aliveThreads())), true
	case "vTier":
		return ts.Const(64, uint64(tierVal)), true
	case "vSymbolic":
		return ts.True, true
	case "vIsNilErr", "vReplayOnly":
		return nil, false
	}
	return nil, false
}

func (w *Worker) curHarnessSite() string {
	return w.cur.Name
}

func (w *Worker) poisonPools() {
	ids := []int{}
	for id, o := range w.objs {
		if o.Pooled == 2 {
			ids = append(ids, id)
		}
	}
	for _, id := range ids {
		o := w.objs[id]
		for i := range o.Leaves {
			o.Leaves[i] = nil
		}
		o.Garbage = true
		o.Pooled = 3 // poisoned: readable, arbitrary content
	}
}

// expectPanic runs f and reports whether it ended in a modelled Go panic.
func (w *Worker) expectPanic(f *Closure) (panicked bool) {
	depth := len(w.stack)
	defer func() {
		if r := recover(); r != nil {
			if _, ok := r.(goPanicEnd); ok {
				w.stack = w.stack[:depth]
				panicked = true
				return
			}
			panic(r)
		}
	}()
	w.callFunction(f.Fn, nil, f.Bind)
	return false
}

func (w *Worker) timeIntrinsic(full string, fn *ssa.Function, args []Val) (Val, bool) {
	return nil, false
}
