package main

import (
	"fmt"
	"os"
	"go/types"

	"golang.org/x/tools/go/ssa"
)

// Cooperative threads: every Go statement of the code under test becomes an engine thread
// (a real goroutine that only runs while it holds the token).  A context switch is possible at
// every channel operation, every `go`, and every explicit vYield(); which runnable thread
// continues is a recorded decision (vChoose-like), so interleavings are explored by the same
// path-forking mechanism as data.

type thread struct {
	id     int
	stack  []*Frame
	resume chan bool // true = run, false = die
	done   bool
	wait   func() bool // nil = runnable; otherwise blocked until it returns true
	what   string
}

type threadKill struct{}

type ChanVal struct {
	id      int
	buf     []Val
	cap     int
	closed  bool
	taken   int // number of values received so far (for unbuffered rendezvous)
	sent    int
	elemT   types.Type
}

type scheduler struct{}

func (w *Worker) initThreads() {
	w.mainT = &thread{id: 0, resume: make(chan bool)}
	w.threads = []*thread{w.mainT}
	w.curT = w.mainT
	w.abort = nil
}

// killThreads terminates all parked thread goroutines (end of path).
func (w *Worker) killThreads() {
	for _, t := range w.threads {
		if t != w.mainT && !t.done && t != w.curT {
			t.done = true
			t.resume <- false
		}
	}
	w.threads = nil
}

func (w *Worker) aliveThreads() int {
	n := 0
	for _, t := range w.threads {
		if !t.done {
			n++
		}
	}
	return n
}

func (w *Worker) runnable() []*thread {
	var r []*thread
	for _, t := range w.threads {
		if t.done {
			continue
		}
		if t.wait == nil {
			r = append(r, t)
			continue
		}
		if t.wait() {
			t.wait = nil
			r = append(r, t)
		}
	}
	return r
}

// switchTo hands the token to t and parks the current thread until it is resumed.
func (w *Worker) switchTo(t *thread) {
	cur := w.curT
	if debugPaths {
		fmt.Fprintf(os.Stderr, "  switch #%d(%s) -> #%d(%s)\n", cur.id, cur.what, t.id, t.what)
	}
	if t == cur {
		return
	}
	cur.stack = w.stack
	w.curT = t
	w.stack = t.stack
	t.resume <- true
	if ok := <-cur.resume; !ok {
		panic(threadKill{})
	}
	// resumed: whoever resumed us has set w.curT/w.stack
	if w.abort != nil && cur == w.mainT {
		a := w.abort
		w.abort = nil
		panic(a)
	}
}

// yield is a scheduling point: any runnable thread may continue.
func (w *Worker) yield(what string) {
	if w.initDepth > 0 {
		return // package initialisation is not a scheduling point
	}
	if len(w.threads) <= 1 {
		if w.curT != nil && w.curT.wait != nil && !w.curT.wait() {
			w.idleOrDeadlock()
		}
		return
	}
	for {
		rs := w.runnable()
		if len(rs) == 0 {
			if w.idleHook() {
				continue
			}
			w.deadlock()
		}
		pick := rs[0]
		if len(rs) > 1 {
			pick = rs[w.choose(len(rs))]
		}
		w.switchTo(pick)
		return
	}
}

func (w *Worker) idleOrDeadlock() {
	for !w.curT.wait() {
		if !w.idleHook() {
			w.deadlock()
		}
	}
	w.curT.wait = nil
}

// idleHook lets the harness advance its logical clock when every thread is blocked
// (function vIdle() bool in the harness package; true = something changed).
func (w *Worker) idleHook() bool {
	if w.cur == nil || w.cur.Fn.Pkg == nil {
		return false
	}
	fn := w.cur.Fn.Pkg.Func("vIdle")
	if fn == nil {
		return false
	}
	w.idleCalls++
	if w.idleCalls > 10000 {
		w.unwindFail("idle hook called too often")
	}
	r := w.callFunction(fn, nil, nil)
	t, ok := r.(*Term)
	return ok && t.isTrue()
}

func (w *Worker) deadlock() {
	if debugPaths {
		for _, t := range w.threads {
			fmt.Fprintf(os.Stderr, "  DEADLOCK thread #%d done=%v blocked=%v what=%s cur=%v\n", t.id, t.done, t.wait != nil, t.what, t == w.curT)
		}
		fmt.Fprintf(os.Stderr, "  stack: %s\n", w.stackTrace())
	}
	if w.curT != w.mainT {
		// report from the main thread's context
		w.abort = deadlockAbort{}
		w.wakeMainAndDie()
	}
	w.reportDeadlock()
}

type deadlockAbort struct{}

func (w *Worker) reportDeadlock() {
	var names []string
	for _, t := range w.threads {
		if !t.done {
			names = append(names, fmt.Sprintf("#%d:%s", t.id, t.what))
		}
	}
	if !w.inPrefix() {
		w.ensureModel()
		id := "no-deadlock"
		if w.deadlockID != "" {
			id = w.deadlockID
		}
		w.reportViolation(id, "assert", w.cur.Name, fmt.Sprintf("all threads blocked forever: %v", names), w.model)
	}
	panic(pathEnd{"violation"})
}

// wakeMainAndDie transfers control to the main thread (which will re-raise w.abort) and ends
// the current thread goroutine.
func (w *Worker) wakeMainAndDie() {
	cur := w.curT
	cur.done = true
	w.curT = w.mainT
	w.stack = w.mainT.stack
	w.mainT.resume <- true
	panic(threadKill{})
}

// blockUntil parks the current thread until cond holds.
func (w *Worker) blockUntil(what string, cond func() bool) {
	if cond() {
		return
	}
	w.curT.wait = cond
	w.curT.what = what
	w.yieldBlocked()
}

func (w *Worker) yieldBlocked() {
	for {
		rs := w.runnable()
		if len(rs) == 0 {
			if w.idleHook() {
				continue
			}
			w.deadlock()
		}
		pick := rs[0]
		if len(rs) > 1 {
			pick = rs[w.choose(len(rs))]
		}
		if pick == w.curT {
			return
		}
		w.switchTo(pick)
		if w.curT.wait == nil {
			return
		}
	}
}

func (w *Worker) goStmt(fr *Frame, x *ssa.Go) {
	d := w.prepCall(fr, &x.Call)
	w.threadCnt++
	t := &thread{id: w.threadCnt, resume: make(chan bool), what: "start"}
	w.threads = append(w.threads, t)
	go func() {
		if ok := <-t.resume; !ok {
			return
		}
		defer func() {
			r := recover()
			if _, ok := r.(threadKill); ok {
				return
			}
			if r != nil {
				// abort the whole path from the main thread
				w.abort = r
				t.done = true
				w.curT = w.mainT
				w.stack = w.mainT.stack
				w.mainT.resume <- true
				return
			}
		}()
		w.doCall(d)
		// thread function returned: hand the token on
		t.done = true
		for {
			rs := w.runnable()
			if len(rs) == 0 {
				if w.idleHook() {
					continue
				}
				w.abort = deadlockAbort{}
				w.curT = w.mainT
				w.stack = w.mainT.stack
				w.mainT.resume <- true
				return
			}
			pick := rs[0]
			if len(rs) > 1 {
				pick = rs[w.choose(len(rs))]
			}
			w.curT = pick
			w.stack = pick.stack
			pick.resume <- true
			return
		}
	}()
	w.yield("go")
}

func (w *Worker) makeChan(x *ssa.MakeChan, size Val) Val {
	w.chanCnt++
	return &ChanVal{id: w.chanCnt, cap: int(w.concretize(size.(*Term), "chan size")), elemT: x.Type().Underlying().(*types.Chan).Elem()}
}

func (w *Worker) chanSend(chv, v Val) {
	ch := chv.(*ChanVal)
	w.yield("send")
	if ch == nil {
		w.blockUntil("send on nil channel", func() bool { return false })
	}
	if ch.closed {
		w.goPanic("explicit", "send on closed channel")
	}
	if ch.cap > 0 {
		w.blockUntil("chan send", func() bool { return len(ch.buf) < ch.cap || ch.closed })
		if ch.closed {
			w.goPanic("explicit", "send on closed channel")
		}
		ch.buf = append(ch.buf, v)
		ch.sent++
		return
	}
	// unbuffered: hand over and wait until a receiver took it
	ch.buf = append(ch.buf, v)
	ch.sent++
	my := ch.sent
	w.blockUntil("chan send (rendezvous)", func() bool { return ch.taken >= my })
}

func (w *Worker) chanRecvReady(ch *ChanVal) bool {
	return ch != nil && (len(ch.buf) > 0 || ch.closed)
}

func (w *Worker) chanTake(ch *ChanVal) (Val, bool) {
	if len(ch.buf) > 0 {
		v := ch.buf[0]
		ch.buf = ch.buf[1:]
		ch.taken++
		return v, true
	}
	return w.zero(ch.elemT), false
}

func (w *Worker) chanRecv(chv Val, commaOk bool, t types.Type) Val {
	ch := chv.(*ChanVal)
	w.yield("recv")
	w.blockUntil("chan receive", func() bool { return w.chanRecvReady(ch) })
	v, ok := w.chanTake(ch)
	if commaOk {
		return Tuple{v, w.ts.Bool(ok)}
	}
	return v
}

func (w *Worker) chanClose(chv Val) {
	ch := chv.(*ChanVal)
	if ch == nil {
		w.goPanic("explicit", "close of nil channel")
	}
	if ch.closed {
		w.goPanic("explicit", "close of closed channel")
	}
	ch.closed = true
	w.yield("close")
}

func (w *Worker) selectStmt(fr *Frame, x *ssa.Select) Val {
	type st struct {
		ch   *ChanVal
		send Val
		dir  types.ChanDir
	}
	states := make([]st, len(x.States))
	for i, s := range x.States {
		states[i].ch, _ = w.operand(fr, s.Chan).(*ChanVal)
		states[i].dir = s.Dir
		if s.Send != nil {
			states[i].send = w.operand(fr, s.Send)
		}
	}
	w.yield("select")
	ready := func() []int {
		var r []int
		for i, s := range states {
			if s.ch == nil {
				continue
			}
			if s.dir == types.RecvOnly {
				if w.chanRecvReady(s.ch) {
					r = append(r, i)
				}
			} else if s.ch.closed || len(s.ch.buf) < s.ch.cap {
				r = append(r, i)
			}
		}
		return r
	}
	rs := ready()
	if len(rs) == 0 {
		if !x.Blocking {
			return w.selectResult(x, -1, nil, false)
		}
		w.blockUntil("select", func() bool { return len(ready()) > 0 })
		rs = ready()
	}
	pick := rs[0]
	if len(rs) > 1 {
		pick = rs[w.choose(len(rs))]
	}
	s := states[pick]
	if s.dir == types.RecvOnly {
		v, ok := w.chanTake(s.ch)
		return w.selectResult(x, pick, v, ok)
	}
	if s.ch.closed {
		w.goPanic("explicit", "send on closed channel")
	}
	s.ch.buf = append(s.ch.buf, s.send)
	s.ch.sent++
	return w.selectResult(x, pick, nil, false)
}

func (w *Worker) selectResult(x *ssa.Select, idx int, recv Val, ok bool) Val {
	tp := Tuple{w.ts.Const(64, uint64(int64(idx))), w.ts.Bool(ok)}
	for i, s := range x.States {
		if s.Dir == types.RecvOnly {
			et := s.Chan.Type().Underlying().(*types.Chan).Elem()
			if i == idx && recv != nil {
				tp = append(tp, recv)
			} else {
				tp = append(tp, w.zero(et))
			}
		}
	}
	return tp
}
