package main

import (
	"fmt"
	"strings"
)

// Op is a term operator.
type Op uint8

const (
	OConst Op = iota
	OVar
	OAdd
	OSub
	OMul
	OAnd
	OOr
	OXor
	ONot // bvnot
	ONeg
	OShl
	OLshr
	OAshr
	OUdiv
	OUrem
	OSdiv
	OSrem
	OConcat
	OExtract // C = hi<<8|lo
	OZext
	OSext
	OEq
	OUlt
	OUle
	OSlt
	OSle
	OBAnd
	OBOr
	OBNot
	OIte
	OSelect // C = table id, A[0] index (64 bit)
)

var opNames = map[Op]string{
	OAdd: "bvadd", OSub: "bvsub", OMul: "bvmul", OAnd: "bvand", OOr: "bvor", OXor: "bvxor",
	ONot: "bvnot", ONeg: "bvneg", OShl: "bvshl", OLshr: "bvlshr", OAshr: "bvashr",
	OUdiv: "bvudiv", OUrem: "bvurem", OSdiv: "bvsdiv", OSrem: "bvsrem", OConcat: "concat",
	OEq: "=", OUlt: "bvult", OUle: "bvule", OSlt: "bvslt", OSle: "bvsle",
	OBAnd: "and", OBOr: "or", OBNot: "not", OIte: "ite",
}

// Term is a hash-consed SMT term. W==0 means Bool.
type Term struct {
	Op   Op
	W    int
	C    uint64
	Name string
	A    []*Term
	id   int
}

type termKey struct {
	op         Op
	w          int
	c          uint64
	name       string
	a0, a1, a2 int
}

// Table is a constant lookup table (read-only array) used for OSelect.
type Table struct {
	W    int
	Vals []uint64
}

// TermStore hash-conses terms (one per worker; not thread safe).
type TermStore struct {
	m      map[termKey]*Term
	next   int
	tables []*Table
	tblKey map[string]int
	True   *Term
	False  *Term
}

func NewTermStore() *TermStore {
	ts := &TermStore{m: map[termKey]*Term{}, tblKey: map[string]int{}}
	ts.True = ts.Bool(true)
	ts.False = ts.Bool(false)
	return ts
}

func mask(w int) uint64 {
	if w >= 64 {
		return ^uint64(0)
	}
	return (uint64(1) << uint(w)) - 1
}

func sext64(v uint64, w int) int64 {
	if w >= 64 {
		return int64(v)
	}
	s := uint(64 - w)
	return int64(v<<s) >> s
}

func (ts *TermStore) mk(op Op, w int, c uint64, name string, a ...*Term) *Term {
	k := termKey{op: op, w: w, c: c, name: name, a0: -1, a1: -1, a2: -1}
	if len(a) > 0 {
		k.a0 = a[0].id
	}
	if len(a) > 1 {
		k.a1 = a[1].id
	}
	if len(a) > 2 {
		k.a2 = a[2].id
	}
	if t, ok := ts.m[k]; ok {
		return t
	}
	t := &Term{Op: op, W: w, C: c, Name: name, A: a, id: ts.next}
	ts.next++
	ts.m[k] = t
	return t
}

func (t *Term) IsConst() bool { return t.Op == OConst }
func (t *Term) IsBool() bool  { return t.W == 0 }

func (ts *TermStore) Const(w int, v uint64) *Term {
	if w == 0 {
		panic("Const with width 0")
	}
	return ts.mk(OConst, w, v&mask(w), "")
}
func (ts *TermStore) Bool(b bool) *Term {
	if b {
		return ts.mk(OConst, 0, 1, "")
	}
	return ts.mk(OConst, 0, 0, "")
}
func (ts *TermStore) Var(name string, w int) *Term { return ts.mk(OVar, w, 0, name) }

func (t *Term) isTrue() bool  { return t.Op == OConst && t.W == 0 && t.C == 1 }
func (t *Term) isFalse() bool { return t.Op == OConst && t.W == 0 && t.C == 0 }

func foldBin(op Op, w int, a, b uint64) (uint64, bool) {
	m := mask(w)
	switch op {
	case OAdd:
		return (a + b) & m, true
	case OSub:
		return (a - b) & m, true
	case OMul:
		return (a * b) & m, true
	case OAnd:
		return a & b, true
	case OOr:
		return a | b, true
	case OXor:
		return a ^ b, true
	case OShl:
		if b >= uint64(w) {
			return 0, true
		}
		return (a << b) & m, true
	case OLshr:
		if b >= uint64(w) {
			return 0, true
		}
		return a >> b, true
	case OAshr:
		s := sext64(a, w)
		if b >= uint64(w) {
			if s < 0 {
				return m, true
			}
			return 0, true
		}
		return uint64(s>>b) & m, true
	case OUdiv:
		if b == 0 {
			return m, true
		}
		return a / b, true
	case OUrem:
		if b == 0 {
			return a, true
		}
		return a % b, true
	case OSdiv:
		sa, sb := sext64(a, w), sext64(b, w)
		if sb == 0 {
			if sa < 0 {
				return 1, true
			}
			return m, true
		}
		if sb == -1 {
			return uint64(-sa) & m, true
		}
		return uint64(sa/sb) & m, true
	case OSrem:
		sa, sb := sext64(a, w), sext64(b, w)
		if sb == 0 {
			return a, true
		}
		if sb == -1 {
			return 0, true
		}
		return uint64(sa%sb) & m, true
	}
	return 0, false
}

// Bin builds a bit-vector binary operation of width a.W.
func (ts *TermStore) Bin(op Op, a, b *Term) *Term {
	if a.W != b.W || a.W == 0 {
		panic(fmt.Sprintf("Bin %v width mismatch %d %d", opNames[op], a.W, b.W))
	}
	w := a.W
	if a.IsConst() && b.IsConst() {
		if v, ok := foldBin(op, w, a.C, b.C); ok {
			return ts.Const(w, v)
		}
	}
	// division/remainder by a power-of-two constant: rewrite to shifts/masks (exact, cheap to bit-blast)
	if b.IsConst() && b.C != 0 && b.C&(b.C-1) == 0 && sext64(b.C, w) > 0 {
		k := 0
		for (uint64(1) << uint(k)) != b.C {
			k++
		}
		if k == 0 {
			switch op {
			case OUdiv, OSdiv:
				return a
			case OUrem, OSrem:
				return ts.Const(w, 0)
			}
		} else if k < w {
			switch op {
			case OUrem:
				return ts.Zext(ts.Extract(a, k-1, 0), w)
			case OUdiv:
				return ts.Bin(OLshr, a, ts.Const(w, uint64(k)))
			case OSrem:
				low := ts.Extract(a, k-1, 0)
				neg := ts.Cmp(OSlt, a, ts.Const(w, 0))
				nz := ts.Not(ts.Eq(low, ts.Const(k, 0)))
				zl := ts.Zext(low, w)
				return ts.Ite(ts.And(neg, nz), ts.Bin(OOr, zl, ts.Const(w, ^(b.C-1))), zl)
			case OSdiv:
				neg := ts.Cmp(OSlt, a, ts.Const(w, 0))
				adj := ts.Ite(neg, ts.Const(w, b.C-1), ts.Const(w, 0))
				return ts.Bin(OAshr, ts.Bin(OAdd, a, adj), ts.Const(w, uint64(k)))
			}
		}
	}
	// light simplifications
	switch op {
	case OAdd, OOr, OXor:
		if a.IsConst() && a.C == 0 {
			return b
		}
		if b.IsConst() && b.C == 0 {
			return a
		}
		if op == OXor && a == b {
			return ts.Const(w, 0)
		}
		if op == OOr && a == b {
			return a
		}
	case OSub:
		if b.IsConst() && b.C == 0 {
			return a
		}
		if a == b {
			return ts.Const(w, 0)
		}
	case OShl, OLshr, OAshr:
		if b.IsConst() && b.C == 0 {
			return a
		}
		if a.IsConst() && a.C == 0 {
			return a
		}
	case OAnd:
		if a.IsConst() && a.C == 0 {
			return a
		}
		if b.IsConst() && b.C == 0 {
			return b
		}
		if a.IsConst() && a.C == mask(w) {
			return b
		}
		if b.IsConst() && b.C == mask(w) {
			return a
		}
		if a == b {
			return a
		}
	case OMul:
		if a.IsConst() && a.C == 1 {
			return b
		}
		if b.IsConst() && b.C == 1 {
			return a
		}
		if (a.IsConst() && a.C == 0) || (b.IsConst() && b.C == 0) {
			return ts.Const(w, 0)
		}
	}
	// canonical order for commutative ops: const second
	switch op {
	case OAdd, OMul, OAnd, OOr, OXor:
		if a.IsConst() && !b.IsConst() {
			a, b = b, a
		}
	}
	return ts.mk(op, w, 0, "", a, b)
}

func (ts *TermStore) BvNot(a *Term) *Term {
	if a.IsConst() {
		return ts.Const(a.W, ^a.C)
	}
	if a.Op == ONot {
		return a.A[0]
	}
	return ts.mk(ONot, a.W, 0, "", a)
}
func (ts *TermStore) BvNeg(a *Term) *Term {
	if a.IsConst() {
		return ts.Const(a.W, -a.C)
	}
	return ts.mk(ONeg, a.W, 0, "", a)
}

func (ts *TermStore) Extract(a *Term, hi, lo int) *Term {
	w := hi - lo + 1
	if lo == 0 && w == a.W {
		return a
	}
	if a.IsConst() {
		return ts.Const(w, a.C>>uint(lo))
	}
	if a.Op == OZext || a.Op == OSext {
		in := a.A[0]
		if hi < in.W {
			return ts.Extract(in, hi, lo)
		}
		if a.Op == OZext && lo >= in.W {
			return ts.Const(w, 0)
		}
	}
	if a.Op == OConcat {
		lw := a.A[1].W
		if hi < lw {
			return ts.Extract(a.A[1], hi, lo)
		}
		if lo >= lw {
			return ts.Extract(a.A[0], hi-lw, lo-lw)
		}
	}
	if a.Op == OExtract {
		ilo := int(a.C & 0xff)
		return ts.Extract(a.A[0], hi+ilo, lo+ilo)
	}
	return ts.mk(OExtract, w, uint64(hi)<<8|uint64(lo), "", a)
}

func (ts *TermStore) Zext(a *Term, w int) *Term {
	if w == a.W {
		return a
	}
	if w < a.W {
		return ts.Extract(a, w-1, 0)
	}
	if a.IsConst() {
		return ts.Const(w, a.C)
	}
	if a.Op == OZext {
		return ts.Zext(a.A[0], w)
	}
	return ts.mk(OZext, w, 0, "", a)
}

func (ts *TermStore) Sext(a *Term, w int) *Term {
	if w == a.W {
		return a
	}
	if w < a.W {
		return ts.Extract(a, w-1, 0)
	}
	if a.IsConst() {
		return ts.Const(w, uint64(sext64(a.C, a.W)))
	}
	if a.Op == OZext {
		return ts.Zext(a.A[0], w)
	}
	return ts.mk(OSext, w, 0, "", a)
}

func (ts *TermStore) Concat(hi, lo *Term) *Term {
	if hi.IsConst() && lo.IsConst() {
		return ts.Const(hi.W+lo.W, hi.C<<uint(lo.W)|lo.C)
	}
	return ts.mk(OConcat, hi.W+lo.W, 0, "", hi, lo)
}

func (ts *TermStore) Eq(a, b *Term) *Term {
	if a.W != b.W {
		panic(fmt.Sprintf("Eq width mismatch %d %d", a.W, b.W))
	}
	if a == b {
		return ts.True
	}
	if a.IsConst() && b.IsConst() {
		return ts.Bool(a.C == b.C)
	}
	if a.W == 0 {
		// boolean equality
		if a.IsConst() {
			a, b = b, a
		}
		if b.isTrue() {
			return a
		}
		if b.isFalse() {
			return ts.Not(a)
		}
	}
	if a.IsConst() {
		a, b = b, a
	}
	// zext(x) == const  -> x == const (if fits) else false
	if b.IsConst() && a.Op == OZext {
		in := a.A[0]
		if b.C&^mask(in.W) != 0 {
			return ts.False
		}
		return ts.Eq(in, ts.Const(in.W, b.C))
	}
	if a.id > b.id && !b.IsConst() {
		a, b = b, a
	}
	return ts.mk(OEq, 0, 0, "", a, b)
}

func (ts *TermStore) Cmp(op Op, a, b *Term) *Term {
	if a.W != b.W || a.W == 0 {
		panic(fmt.Sprintf("Cmp width mismatch %d %d", a.W, b.W))
	}
	if a.IsConst() && b.IsConst() {
		switch op {
		case OUlt:
			return ts.Bool(a.C < b.C)
		case OUle:
			return ts.Bool(a.C <= b.C)
		case OSlt:
			return ts.Bool(sext64(a.C, a.W) < sext64(b.C, a.W))
		case OSle:
			return ts.Bool(sext64(a.C, a.W) <= sext64(b.C, a.W))
		}
	}
	if a == b {
		return ts.Bool(op == OUle || op == OSle)
	}
	// zext(x) <u const  with const beyond range
	if a.Op == OZext && b.IsConst() {
		in := a.A[0]
		nonneg := sext64(b.C, b.W) >= 0
		if (op == OUlt || op == OUle) || nonneg {
			if b.C > mask(in.W) {
				return ts.True
			}
			o := op
			if o == OSlt {
				o = OUlt
			}
			if o == OSle {
				o = OUle
			}
			return ts.Cmp(o, in, ts.Const(in.W, b.C))
		}
	}
	if b.Op == OZext && a.IsConst() {
		in := b.A[0]
		nonneg := sext64(a.C, a.W) >= 0
		if (op == OUlt || op == OUle) || nonneg {
			if a.C > mask(in.W) {
				return ts.False
			}
			o := op
			if o == OSlt {
				o = OUlt
			}
			if o == OSle {
				o = OUle
			}
			return ts.Cmp(o, ts.Const(in.W, a.C), in)
		}
	}
	return ts.mk(op, 0, 0, "", a, b)
}

func (ts *TermStore) Not(a *Term) *Term {
	if a.W != 0 {
		panic("Not on non-bool")
	}
	if a.IsConst() {
		return ts.Bool(a.C == 0)
	}
	if a.Op == OBNot {
		return a.A[0]
	}
	return ts.mk(OBNot, 0, 0, "", a)
}

func (ts *TermStore) And(a, b *Term) *Term {
	if a.W != 0 || b.W != 0 {
		panic("And on non-bool")
	}
	if a.isFalse() || b.isFalse() {
		return ts.False
	}
	if a.isTrue() {
		return b
	}
	if b.isTrue() {
		return a
	}
	if a == b {
		return a
	}
	return ts.mk(OBAnd, 0, 0, "", a, b)
}

func (ts *TermStore) Or(a, b *Term) *Term {
	if a.W != 0 || b.W != 0 {
		panic("Or on non-bool")
	}
	if a.isTrue() || b.isTrue() {
		return ts.True
	}
	if a.isFalse() {
		return b
	}
	if b.isFalse() {
		return a
	}
	if a == b {
		return a
	}
	return ts.mk(OBOr, 0, 0, "", a, b)
}

func (ts *TermStore) Ite(c, a, b *Term) *Term {
	if c.W != 0 {
		panic("Ite cond not bool")
	}
	if a.W != b.W {
		panic(fmt.Sprintf("Ite width mismatch %d %d", a.W, b.W))
	}
	if c.isTrue() {
		return a
	}
	if c.isFalse() {
		return b
	}
	if a == b {
		return a
	}
	if a.W == 0 {
		if a.isTrue() && b.isFalse() {
			return c
		}
		if a.isFalse() && b.isTrue() {
			return ts.Not(c)
		}
	}
	return ts.mk(OIte, a.W, 0, "", c, a, b)
}

// NewTable registers (or finds) a constant table.
func (ts *TermStore) NewTable(w int, vals []uint64) int {
	var sb strings.Builder
	fmt.Fprintf(&sb, "%d:", w)
	for _, v := range vals {
		fmt.Fprintf(&sb, "%x,", v)
	}
	k := sb.String()
	if id, ok := ts.tblKey[k]; ok {
		return id
	}
	ts.tables = append(ts.tables, &Table{W: w, Vals: append([]uint64(nil), vals...)})
	id := len(ts.tables) - 1
	ts.tblKey[k] = id
	return id
}

// Select reads table[idx]; idx is a 64-bit term assumed in range.
func (ts *TermStore) Select(tbl int, idx *Term) *Term {
	t := ts.tables[tbl]
	if idx.IsConst() {
		if idx.C < uint64(len(t.Vals)) {
			return ts.Const(t.W, t.Vals[idx.C])
		}
		return ts.Const(t.W, 0)
	}
	return ts.mk(OSelect, t.W, uint64(tbl), "", idx)
}

// Eval evaluates t under model (missing variables are 0).
func (ts *TermStore) Eval(t *Term, model map[string]uint64, memo map[int]uint64) uint64 {
	if t.Op == OConst {
		return t.C
	}
	if v, ok := memo[t.id]; ok {
		return v
	}
	var r uint64
	ev := func(i int) uint64 { return ts.Eval(t.A[i], model, memo) }
	b2u := func(b bool) uint64 {
		if b {
			return 1
		}
		return 0
	}
	switch t.Op {
	case OVar:
		r = model[t.Name] & maskB(t.W)
	case OAdd, OSub, OMul, OAnd, OOr, OXor, OShl, OLshr, OAshr, OUdiv, OUrem, OSdiv, OSrem:
		r, _ = foldBin(t.Op, t.W, ev(0), ev(1))
	case ONot:
		r = ^ev(0) & mask(t.W)
	case ONeg:
		r = -ev(0) & mask(t.W)
	case OConcat:
		r = ev(0)<<uint(t.A[1].W) | ev(1)
	case OExtract:
		lo := int(t.C & 0xff)
		r = (ev(0) >> uint(lo)) & mask(t.W)
	case OZext:
		r = ev(0)
	case OSext:
		r = uint64(sext64(ev(0), t.A[0].W)) & mask(t.W)
	case OEq:
		r = b2u(ev(0) == ev(1))
	case OUlt:
		r = b2u(ev(0) < ev(1))
	case OUle:
		r = b2u(ev(0) <= ev(1))
	case OSlt:
		r = b2u(sext64(ev(0), t.A[0].W) < sext64(ev(1), t.A[0].W))
	case OSle:
		r = b2u(sext64(ev(0), t.A[0].W) <= sext64(ev(1), t.A[0].W))
	case OBAnd:
		r = b2u(ev(0) != 0 && ev(1) != 0)
	case OBOr:
		r = b2u(ev(0) != 0 || ev(1) != 0)
	case OBNot:
		r = b2u(ev(0) == 0)
	case OIte:
		if ev(0) != 0 {
			r = ev(1)
		} else {
			r = ev(2)
		}
	case OSelect:
		tb := ts.tables[t.C]
		i := ev(0)
		if i < uint64(len(tb.Vals)) {
			r = tb.Vals[i]
		}
	default:
		panic("Eval: bad op")
	}
	memo[t.id] = r
	return r
}

func maskB(w int) uint64 {
	if w == 0 {
		return 1
	}
	return mask(w)
}

func sortOf(w int) string {
	if w == 0 {
		return "Bool"
	}
	return fmt.Sprintf("(_ BitVec %d)", w)
}

func constStr(t *Term) string {
	if t.W == 0 {
		if t.C != 0 {
			return "true"
		}
		return "false"
	}
	if t.W%4 == 0 {
		return fmt.Sprintf("#x%0*x", t.W/4, t.C)
	}
	return fmt.Sprintf("(_ bv%d %d)", t.C, t.W)
}

func varSym(name string) string {
	return "|" + strings.NewReplacer("|", "_", "\\", "_").Replace(name) + "|"
}
