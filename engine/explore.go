package main

import (
	"fmt"
	"math/rand"
	"os"
	"sort"
	"strings"
	"sync"
	"time"

	"golang.org/x/tools/go/ssa"
)

// Decision is one recorded nondeterministic choice on a path.
type Decision struct {
	K  byte     `json:"k"` // 'b' branch, 'c' vChoose, 'v' concretize value, 'x' concretize excluding
	V  uint64   `json:"v"`
	Ex []uint64 `json:"ex,omitempty"`
	N  string   `json:"-"` // debug: where the decision was taken
}

type Violation struct {
	Harness   string            `json:"harness"`
	Assert    string            `json:"assert"`
	Kind      string            `json:"kind"` // assert | panic | unwind | pool | global-write
	Site      string            `json:"site"`
	Msg       string            `json:"msg"`
	Choices   []uint64          `json:"choices"`
	Values    map[string]uint64 `json:"values"`
	Widths    map[string]int    `json:"widths"`
	Decisions []Decision        `json:"-"`
}

type Witness struct {
	Harness string            `json:"harness"`
	Choices []uint64          `json:"choices"`
	Values  map[string]uint64 `json:"values"`
	Reached []string          `json:"reached"` // assertion ids reached in order
	Traces  []TraceRec        `json:"traces"`
	End     string            `json:"end"`
}

type TraceRec struct {
	ID  string `json:"id"`
	Val uint64 `json:"val"`
}

type HarnessStats struct {
	Name        string
	Paths       int
	Pruned      int
	Instrs      int64
	Queries     int
	Sat, Unsat  int
	SolverTime  time.Duration
	Asserts     map[string]int // id → number of paths on which it was reached
	AssertsSym  map[string]int // id → number of solver-decided checks
	Violations  []*Violation
	ViolCount   map[string]int
	Witnesses   []*Witness
	Errors      []string // engine errors (inconclusive)
	Incomplete  bool
	GlobalWrite []string
	Funcs       map[string]bool
	Covers      map[string]int
	Notes       map[string]bool
	MaxDepth    int
}

type workItem struct {
	h      *Harness
	prefix []Decision
}

type Harness struct {
	Name  string
	Fn    *ssa.Function
	Stats *HarnessStats
	mu    sync.Mutex
}

type Worker struct {
	id   int
	prog *ssa.Program
	ts   *TermStore
	sol  *Solver
	eng  *Engine

	baseObjs  map[int]*Obj
	nextBase  int
	globals   map[*ssa.Global]int
	initState map[*ssa.Package]int
	initDepth int
	finfo     map[*ssa.Function]*FuncInfo
	harnessFn map[*ssa.Function]bool
	models    map[*ssa.Function]*ssa.Function
	npaths    int
	strConsts map[string]int
	globalWriteOK map[string]bool
	syncPools     map[string][]Val // sync.Pool model: items Put and not yet taken, per pool

	// per-path state
	objs        map[int]*Obj
	nextObj     int
	stack       []*Frame
	prefix      []Decision
	dpos        int
	decisions   []Decision
	model       map[string]uint64
	hasModel    bool
	instrs      int64
	instrLimit  int64
	unwindLimit int
	varCnt      map[string]int
	varWidths   map[string]int
	garbCnt     int
	garbageVars map[string]bool
	mapCnt      int
	symStrCnt   int
	reached     []string
	traces      []traceTerm
	globalWrites []string
	cur         *Harness
	pathViol    []*Violation
	siblings    [][]Decision
	funcsSeen   map[string]bool
	covers      []string
	poolLive    map[int]bool
	chanCnt     int
	sched       *scheduler
	threads     []*thread
	curT        *thread
	mainT       *thread
	abort       interface{}
	threadCnt   int
	idleCalls   int
	deadlockID  string
	onceDone    map[string]bool
	syncMaps    map[string]*MapVal
	inOnce      int
	reportedOnce map[string]bool
	notes       map[string]bool
	randConcrete bool
	rng         *rand.Rand
	lits        map[int]bool // term id → value asserted on this path
}

type traceTerm struct {
	id string
	t  *Term
}

type Engine struct {
	prog      *ssa.Program
	pkgs      map[string]*ssa.Package
	harnesses []*Harness
	queue     []workItem
	mu        sync.Mutex
	cond      *sync.Cond
	active    int
	deadline  time.Time
	maxPaths  int
	solver    string
	nworkers  int
	witnessN  int
	seed      int64
	stop      bool
	verbose   bool
}

func (w *Worker) resetPath(prefix []Decision) {
	w.objs = map[int]*Obj{}
	w.nextObj = 0
	w.stack = w.stack[:0]
	w.prefix = prefix
	w.dpos = 0
	w.decisions = w.decisions[:0]
	w.model = map[string]uint64{} // the all-zero assignment is a model of the empty path condition
	w.hasModel = true
	w.instrs = 0
	w.varCnt = map[string]int{}
	w.varWidths = map[string]int{}
	w.garbCnt = 0
	w.garbageVars = map[string]bool{}
	w.mapCnt = 0
	w.symStrCnt = 0
	w.reached = nil
	w.traces = nil
	w.globalWrites = nil
	w.pathViol = nil
	w.siblings = nil
	w.covers = nil
	w.poolLive = map[int]bool{}
	w.chanCnt = 0
	w.sched = nil
	w.threadCnt = 0
	w.idleCalls = 0
	w.deadlockID = ""
	w.initThreads()
	w.onceDone = nil
	w.syncMaps = nil
	w.syncPools = nil
	w.inOnce = 0
	w.reportedOnce = map[string]bool{}
	w.notes = map[string]bool{}
	w.randConcrete = false
	w.lits = map[int]bool{}
	w.sol.NewPath()
}

func (w *Worker) inPrefix() bool { return w.dpos < len(w.prefix) }

func (w *Worker) record(d Decision) {
	if debugPaths && d.N == "" {
		d.N = shortFn(w.curFn())
	}
	w.decisions = append(w.decisions, d)
}

var debugPaths = os.Getenv("SYMGO_DEBUGPATHS") != ""

func (w *Worker) pushSibling(d Decision) {
	s := make([]Decision, len(w.decisions)+1)
	copy(s, w.decisions)
	s[len(w.decisions)] = d
	w.siblings = append(w.siblings, s)
}

func (w *Worker) evalBool(t *Term) bool {
	return w.ts.Eval(t, w.model, map[int]uint64{}) != 0
}

func (w *Worker) ensureModel() {
	if w.hasModel {
		return
	}
	if !w.sol.Check(nil) {
		panic(pathEnd{"infeasible"})
	}
	w.model = w.sol.Model()
	w.hasModel = true
}

// branch decides a (possibly symbolic) condition, forking when both arms are feasible.
func (w *Worker) branch(c *Term) bool {
	if c.IsConst() {
		return c.C != 0
	}
	if w.initDepth > 0 {
		panic(engineError{"symbolic branch during package initialisation"})
	}
	ts := w.ts
	if v, ok := w.lits[c.id]; ok {
		return v
	}
	if c.Op == OBNot {
		if v, ok := w.lits[c.A[0].id]; ok {
			return !v
		}
	}
	if w.inPrefix() {
		d := w.prefix[w.dpos]
		w.dpos++
		if d.K != 'b' {
			panic(engineError{fmt.Sprintf("replay divergence: expected branch decision, have %c in %s", d.K, w.curFn())})
		}
		arm := d.V == 1
		if arm {
			w.sol.Assert(c)
		} else {
			w.sol.Assert(ts.Not(c))
		}
		if w.hasModel && w.evalBool(c) != arm {
			w.hasModel = false
		}
		w.lits[c.id] = arm
		w.record(d)
		return arm
	}
	w.ensureModel()
	arm := w.evalBool(c)
	other := c
	if arm {
		other = ts.Not(c)
	}
	if w.sol.Check(other) {
		v := uint64(1)
		if arm {
			v = 0
		}
		w.pushSibling(Decision{K: 'b', V: v})
	}
	w.lits[c.id] = arm
	if arm {
		w.sol.Assert(c)
		w.record(Decision{K: 'b', V: 1})
	} else {
		w.sol.Assert(ts.Not(c))
		w.record(Decision{K: 'b', V: 0})
	}
	return arm
}

const concretizeCap = 300

// concretize turns a term into a concrete value, forking over all feasible values.
func (w *Worker) concretize(t *Term, what string) uint64 {
	if t.IsConst() {
		return t.C
	}
	if w.initDepth > 0 {
		panic(engineError{"symbolic value during package initialisation"})
	}
	ts := w.ts
	var excluded []uint64
	if w.inPrefix() {
		d := w.prefix[w.dpos]
		w.dpos++
		switch d.K {
		case 'v':
			w.sol.Assert(ts.Eq(t, ts.Const(t.W, d.V)))
			if w.hasModel && w.ts.Eval(t, w.model, map[int]uint64{}) != d.V {
				w.hasModel = false
			}
			w.record(d)
			return d.V
		case 'x':
			excluded = d.Ex
		default:
			panic(engineError{fmt.Sprintf("replay divergence: expected concretize decision, have %c in %s", d.K, w.curFn())})
		}
	}
	for _, e := range excluded {
		w.sol.Assert(ts.Not(ts.Eq(t, ts.Const(t.W, e))))
	}
	if len(excluded) > 0 {
		w.hasModel = false
	}
	if !w.hasModel {
		if !w.sol.Check(nil) {
			panic(pathEnd{"exhausted"})
		}
		w.model = w.sol.Model()
		w.hasModel = true
	}
	v := w.ts.Eval(t, w.model, map[int]uint64{})
	if len(excluded)+1 > concretizeCap {
		w.unwindFail("more than " + fmt.Sprint(concretizeCap) + " feasible values for " + what + " in " + w.curFn())
	}
	ex := append(append([]uint64(nil), excluded...), v)
	w.pushSibling(Decision{K: 'x', Ex: ex})
	w.sol.Assert(ts.Eq(t, ts.Const(t.W, v)))
	w.record(Decision{K: 'v', V: v})
	return v
}

// choose implements vChoose(k).
func (w *Worker) choose(k int) int {
	if k <= 0 {
		panic(pathEnd{"choose-empty"})
	}
	if k == 1 {
		return 0
	}
	if w.inPrefix() {
		d := w.prefix[w.dpos]
		w.dpos++
		if d.K != 'c' {
			panic(engineError{fmt.Sprintf("replay divergence: expected choose decision, have %c", d.K)})
		}
		w.record(d)
		return int(d.V)
	}
	for i := k - 1; i >= 1; i-- {
		w.pushSibling(Decision{K: 'c', V: uint64(i)})
	}
	w.record(Decision{K: 'c', V: 0})
	return 0
}

// assume adds c to the path condition, ending the path if it becomes infeasible.
func (w *Worker) assume(c *Term) {
	if c.isTrue() {
		return
	}
	if c.isFalse() {
		panic(pathEnd{"assume-false"})
	}
	w.sol.Assert(c)
	if w.inPrefix() {
		if w.hasModel && !w.evalBool(c) {
			w.hasModel = false
		}
		return
	}
	if w.hasModel && w.evalBool(c) {
		return
	}
	w.hasModel = false
	if !w.sol.Check(nil) {
		panic(pathEnd{"assume-false"})
	}
	w.model = w.sol.Model()
	w.hasModel = true
}

func (w *Worker) choicesOf(ds []Decision) []uint64 {
	var r []uint64
	for _, d := range ds {
		if d.K == 'c' {
			r = append(r, d.V)
		}
	}
	return r
}

func (w *Worker) reportViolation(id, kind, site, msg string, model map[string]uint64) {
	v := &Violation{Harness: w.cur.Name, Assert: id, Kind: kind, Site: site, Msg: msg,
		Choices: w.choicesOf(w.decisions), Values: model, Widths: map[string]int{}}
	for k, wd := range w.varWidths {
		v.Widths[k] = wd
	}
	v.Decisions = append([]Decision(nil), w.decisions...)
	w.pathViol = append(w.pathViol, v)
}

// checkProp checks that bad is infeasible; otherwise reports and assumes ¬bad.
func (w *Worker) checkProp(bad *Term, id, kind, site, msg string) {
	if bad.isFalse() {
		return
	}
	if v, ok := w.lits[bad.id]; ok && !v {
		return
	}
	ts := w.ts
	defer func() { w.lits[bad.id] = false }()
	if w.inPrefix() {
		// already checked by the path that created this prefix
		if bad.isTrue() {
			panic(pathEnd{"violation-prefix"})
		}
		w.sol.Assert(ts.Not(bad))
		if w.hasModel && w.evalBool(bad) {
			w.hasModel = false
		}
		return
	}
	if bad.isTrue() {
		w.ensureModel()
		w.reportViolation(id, kind, site, msg, w.model)
		panic(pathEnd{"violation"})
	}
	w.ensureModel()
	if w.evalBool(bad) {
		w.reportViolation(id, kind, site, msg, w.model)
		// continue on the good side if feasible
		w.sol.Assert(ts.Not(bad))
		w.hasModel = false
		if !w.sol.Check(nil) {
			panic(pathEnd{"violation"})
		}
		w.model = w.sol.Model()
		w.hasModel = true
		return
	}
	if w.sol.Check(bad) {
		m := w.sol.Model()
		w.reportViolation(id, kind, site, msg, m)
	}
	w.sol.Assert(ts.Not(bad))
}

// oblige is an implicit Go run-time check (panic obligation).
func (w *Worker) oblige(bad *Term, kind, msg string) {
	site := w.libSite()
	w.checkProp(bad, "nopanic", "panic:"+kind, site, msg)
}

// goPanic models a Go run-time panic that certainly happens on this path.
func (w *Worker) goPanic(kind, msg string) {
	if w.initDepth > 0 {
		panic(engineError{"panic during package initialisation: " + msg})
	}
	panic(goPanicEnd{kind, msg})
}

func (w *Worker) unwindFail(msg string) {
	if !w.inPrefix() {
		w.ensureModel()
		w.reportViolation("unwind", "unwind", w.libSite(), msg, w.model)
	}
	panic(pathEnd{"unwind"})
}

func (w *Worker) poolViolation(msg string) {
	if !w.inPrefix() {
		w.ensureModel()
		w.reportViolation("pool", "pool", w.libSite(), msg, w.model)
	}
	panic(pathEnd{"violation"})
}

// runPath executes one path of harness h following prefix.
func (w *Worker) runPath(h *Harness, prefix []Decision) (end string, err error) {
	w.cur = h
	w.resetPath(prefix)
	st := time.Now()
	q0, s0, u0, t0 := w.sol.Queries, w.sol.Sat, w.sol.Unsat, w.sol.Time
	func() {
		defer func() {
			if r := recover(); r != nil {
				switch x := r.(type) {
				case pathEnd:
					end = x.Reason
				case goPanicEnd:
					// uncaught Go panic: a violation on this path
					if w.inPrefix() {
						end = "violation-prefix"
						return
					}
					func() {
						defer func() {
							if r2 := recover(); r2 != nil {
								if pe, ok := r2.(pathEnd); ok {
									end = pe.Reason
									return
								}
								panic(r2)
							}
						}()
						w.ensureModel()
						w.reportViolation("nopanic", "panic:"+x.Kind, w.libSite(), x.Msg, w.model)
						end = "violation"
					}()
				case deadlockAbort:
					func() {
						defer func() {
							if r2 := recover(); r2 != nil {
								if pe, ok := r2.(pathEnd); ok {
									end = pe.Reason
									return
								}
								panic(r2)
							}
						}()
						w.reportDeadlock()
					}()
				case engineError:
					err = fmt.Errorf("%s [stack: %s]", x.Msg, w.stackTrace())
					end = "error"
				case SolverError:
					err = x
					end = "error"
					w.sol.Close()
					w.sol.start()
				default:
					panic(r)
				}
			}
		}()
		w.callFunction(h.Fn, nil, nil)
		end = "done"
	}()
	w.killThreads()
	_ = st
	// witness
	var wit *Witness
	keepWit := false
	if end == "done" && err == nil {
		h.mu.Lock()
		np := h.Stats.Paths
		h.mu.Unlock()
		// keep the first witnessN paths, then a deterministic thinning sample
		keepWit = np < w.eng.witnessN || (w.eng.witnessN > 0 && (pathHash(w.decisions)^uint64(w.eng.seed)*0x9e3779b97f4a7c15)%uint64(np/4+1) == 0 && np%3 == 0)
		if w.hasModel && !keepWit {
			keepWit = false
		}
	}
	if len(w.pathViol) > 0 {
		keepWit = false // the path continued under the negated violation: not a replayable witness
	}
	if keepWit {
		func() {
			defer func() {
				if r := recover(); r != nil {
					if _, ok := r.(pathEnd); ok {
						end = "infeasible"
						return
					}
					if se, ok := r.(SolverError); ok {
						err = se
						end = "error"
						w.sol.Close()
						w.sol.start()
						return
					}
					panic(r)
				}
			}()
			w.ensureModel()
			wit = &Witness{Harness: h.Name, Choices: w.choicesOf(w.decisions), Values: map[string]uint64{}, Reached: w.reached, End: end}
			for k := range w.varWidths {
				wit.Values[k] = w.model[k]
			}
			memo := map[int]uint64{}
			for _, tr := range w.traces {
				wit.Traces = append(wit.Traces, TraceRec{tr.id, w.ts.Eval(tr.t, w.model, memo)})
			}
		}()
	}
	// merge stats
	h.mu.Lock()
	s := h.Stats
	switch end {
	case "done":
		s.Paths++
	case "violation", "unwind":
		s.Paths++
	case "error":
	default:
		s.Pruned++
	}
	s.Instrs += w.instrs
	s.Queries += w.sol.Queries - q0
	s.Sat += w.sol.Sat - s0
	s.Unsat += w.sol.Unsat - u0
	s.SolverTime += w.sol.Time - t0
	if len(w.decisions) > s.MaxDepth {
		s.MaxDepth = len(w.decisions)
	}
	if end == "done" || end == "violation" {
		seen := map[string]bool{}
		for _, id := range w.reached {
			if !seen[id] {
				seen[id] = true
				s.Asserts[id]++
			}
		}
		for _, c := range w.covers {
			s.Covers[c]++
		}
	}
	for _, v := range w.pathViol {
		key := v.Assert + "|" + v.Kind + "|" + v.Site
		s.ViolCount[key]++
		// keep up to 3 per assertion, plus up to 5 more whose input values differ from those kept
		vk := key + "|" + valuesKey(v.Values)
		if s.ViolCount[key] <= 3 || (s.ViolCount[vk] == 0 && s.ViolCount[key+"|distinct"] < 5) {
			if s.ViolCount[key] > 3 {
				s.ViolCount[key+"|distinct"]++
			}
			s.Violations = append(s.Violations, v)
		}
		s.ViolCount[vk]++
	}
	if err != nil && len(s.Errors) < 5 {
		s.Errors = append(s.Errors, err.Error())
	}
	for _, g := range w.globalWrites {
		if len(s.GlobalWrite) < 5 {
			s.GlobalWrite = append(s.GlobalWrite, g)
		}
	}
	for f := range w.funcsSeen {
		s.Funcs[f] = true
	}
	for n := range w.notes {
		s.Notes[n] = true
	}
	if wit != nil {
		if len(s.Witnesses) < w.eng.witnessN {
			s.Witnesses = append(s.Witnesses, wit)
		} else if w.eng.witnessN > 0 {
			s.Witnesses[int(pathHash(w.decisions)>>8)%w.eng.witnessN] = wit
		}
	}
	h.mu.Unlock()
	return end, err
}

// ---- engine work loop ----

func (e *Engine) push(items ...workItem) {
	e.mu.Lock()
	e.queue = append(e.queue, items...)
	e.mu.Unlock()
	e.cond.Broadcast()
}

func (e *Engine) take() (workItem, bool) {
	e.mu.Lock()
	defer e.mu.Unlock()
	for {
		if e.stop {
			return workItem{}, false
		}
		if n := len(e.queue); n > 0 {
			it := e.queue[n-1]
			e.queue = e.queue[:n-1]
			e.active++
			return it, true
		}
		if e.active == 0 {
			e.cond.Broadcast()
			return workItem{}, false
		}
		e.cond.Wait()
	}
}

func (e *Engine) done() {
	e.mu.Lock()
	e.active--
	e.mu.Unlock()
	e.cond.Broadcast()
}

func (e *Engine) runAll() {
	e.cond = sync.NewCond(&e.mu)
	for _, h := range e.harnesses {
		e.queue = append(e.queue, workItem{h: h})
	}
	var wg sync.WaitGroup
	for i := 0; i < e.nworkers; i++ {
		wg.Add(1)
		go func(id int) {
			defer wg.Done()
			w := e.newWorker(id, nil)
			defer func() { w.sol.Close() }()
			for {
				it, ok := e.take()
				if !ok {
					return
				}
				h := it.h
				over := false
				h.mu.Lock()
				if h.Stats.Paths+h.Stats.Pruned >= e.maxPaths || len(h.Stats.Errors) >= 3 {
					h.Stats.Incomplete = true
					over = true
				}
				h.mu.Unlock()
				if time.Now().After(e.deadline) {
					h.mu.Lock()
					h.Stats.Incomplete = true
					h.mu.Unlock()
					over = true
				}
				if !over {
					w.npaths++
					if w.npaths%2000 == 0 {
						// bound memory: fresh term store and base heap (the solver process is kept)
						w = e.newWorker(id, w)
					}
					end, err := w.runPath(h, it.prefix)
					if debugPaths && w.npaths%5000 == 1 {
						var sb strings.Builder
						for _, d := range w.decisions {
							fmt.Fprintf(&sb, "%c%d@%s ", d.K, d.V, d.N)
						}
						fmt.Fprintf(os.Stderr, "PATH %s end=%s: %s\n", h.Name, end, sb.String())
					}
					if e.verbose {
						fmt.Fprintf(os.Stderr, "[w%d] %s path end=%s depth=%d err=%v\n", id, h.Name, end, len(w.decisions), err)
					}
					sibs := make([]workItem, 0, len(w.siblings))
					for _, s := range w.siblings {
						sibs = append(sibs, workItem{h: h, prefix: s})
					}
					if len(sibs) > 0 {
						e.push(sibs...)
					}
				}
				e.done()
			}
		}(i)
	}
	wg.Wait()
}

func (e *Engine) newWorker(id int, old *Worker) *Worker {
	ts := NewTermStore()
	w := &Worker{id: id, prog: e.prog, ts: ts, eng: e,
		baseObjs: map[int]*Obj{}, globals: map[*ssa.Global]int{}, initState: map[*ssa.Package]int{},
		finfo: map[*ssa.Function]*FuncInfo{}, harnessFn: map[*ssa.Function]bool{}, models: map[*ssa.Function]*ssa.Function{}, strConsts: map[string]int{},
		instrLimit: 20_000_000, unwindLimit: 100_000, funcsSeen: map[string]bool{},
		globalWriteOK: map[string]bool{},
	}
	if old != nil {
		w.sol = old.sol
		w.sol.ts = ts
	} else {
		w.sol = NewSolver(e.solver, ts, 60)
	}
	return w
}

func sortedKeys(m map[string]int) []string {
	var ks []string
	for k := range m {
		ks = append(ks, k)
	}
	sort.Strings(ks)
	return ks
}

func shortFn(s string) string {
	return strings.ReplaceAll(s, "github.com/gobwas/", "")
}

func pathHash(ds []Decision) uint64 {
	h := uint64(1469598103934665603)
	for _, d := range ds {
		h ^= uint64(d.K) + d.V*31
		h *= 1099511628211
	}
	return h
}

func valuesKey(m map[string]uint64) string {
	ks := make([]string, 0, len(m))
	for k := range m {
		ks = append(ks, k)
	}
	sort.Strings(ks)
	var sb strings.Builder
	for _, k := range ks {
		fmt.Fprintf(&sb, "%s=%d;", k, m[k])
	}
	return sb.String()
}
