package main

import (
	"fmt"
	"go/token"
	"go/types"
	"strings"

	"golang.org/x/tools/go/ssa"
)

type engineError struct{ Msg string }   // unsupported construct / internal error → inconclusive
type pathEnd struct{ Reason string }    // normal termination of a path (pruned, violation-panic, done)
type goPanicEnd struct{ Kind, Msg string } // modelled Go panic (unwinds to harness / vExpectPanic)

type FuncInfo struct {
	index map[ssa.Value]int
	n     int
}

type Frame struct {
	fn     *ssa.Function
	regs   []Val
	bind   []Val
	defers []deferred
	info   *FuncInfo
	cur    ssa.Instruction // instruction being executed (for attribution of init-time allocations)
}

type deferred struct {
	call *ssa.CallCommon
	fn   Val
	args []Val
}

func (w *Worker) funcInfo(fn *ssa.Function) *FuncInfo {
	if fi, ok := w.finfo[fn]; ok {
		return fi
	}
	fi := &FuncInfo{index: map[ssa.Value]int{}}
	for _, p := range fn.Params {
		fi.index[p] = fi.n
		fi.n++
	}
	for _, b := range fn.Blocks {
		for _, ins := range b.Instrs {
			if v, ok := ins.(ssa.Value); ok {
				fi.index[v] = fi.n
				fi.n++
			}
		}
	}
	w.finfo[fn] = fi
	return fi
}

// noteRecursion (C15): a library function that is already active four times on the call stack is
// recursing once per unit of peer input in these harnesses (their inputs are a handful of frames
// or bytes): stack depth proportional to what the peer sends, i.e. a stack overflow (a crash no
// recover() catches) for a long enough input.  Reported once per function; natively confirmed by
// the harness scaling the same input up (see C15_control_flood).
func (w *Worker) noteRecursion(fn *ssa.Function) {
	if fn.Pkg == nil || !strings.HasPrefix(fn.Pkg.Pkg.Path(), "github.com/gobwas/") || w.isHarnessFn(fn) {
		return
	}
	n := 0
	for _, fr := range w.stack {
		if fr.fn == fn {
			n++
		}
	}
	if n < 4 {
		return
	}
	key := "recursion:" + fn.String()
	if w.inPrefix() || w.reportedOnce[key] {
		return
	}
	w.reportedOnce[key] = true
	w.ensureModel()
	w.reportViolation("nopanic", "recursion", fn.String(), "call depth of "+fn.String()+" grows with the peer's input (5 nested activations here): stack overflow for a long enough input", w.model)
}

func (w *Worker) curFn() string {
	if len(w.stack) == 0 {
		return "?"
	}
	return w.stack[len(w.stack)-1].fn.String()
}

func (w *Worker) stackTrace() string {
	var sb strings.Builder
	for i := len(w.stack) - 1; i >= 0 && i >= len(w.stack)-8; i-- {
		sb.WriteString(w.stack[i].fn.String() + " < ")
	}
	return sb.String()
}

// libSite returns the innermost frame that is not part of the harness (for violation sites).
func (w *Worker) libSite() string {
	for i := len(w.stack) - 1; i >= 0; i-- {
		fn := w.stack[i].fn
		if !w.isHarnessFn(fn) {
			return fn.String()
		}
	}
	return w.curFn()
}

func (w *Worker) isHarnessFn(fn *ssa.Function) bool {
	if v, ok := w.harnessFn[fn]; ok {
		return v
	}
	v := w.isHarnessFn0(fn)
	w.harnessFn[fn] = v
	return v
}

func (w *Worker) isHarnessFn0(fn *ssa.Function) bool {
	for f := fn; f != nil; f = f.Parent() {
		fn = f
	}
	if fn.Pkg == nil {
		return false
	}
	pos := fn.Pos()
	if !pos.IsValid() {
		return false
	}
	file := w.prog.Fset.Position(pos).Filename
	return strings.Contains(file, "zz_verif_")
}

func (w *Worker) operand(fr *Frame, v ssa.Value) Val {
	switch x := v.(type) {
	case *ssa.Const:
		return w.constVal(x)
	case *ssa.Global:
		return Ptr{w.globalObj(x), 0}
	case *ssa.Function:
		return &Closure{Fn: x}
	case *ssa.Builtin:
		return x
	case *ssa.FreeVar:
		for i, fv := range fr.fn.FreeVars {
			if fv == x {
				return fr.bind[i]
			}
		}
		panic(engineError{"freevar not found"})
	}
	i, ok := fr.info.index[v]
	if !ok {
		panic(engineError{fmt.Sprintf("operand: unknown value %s in %s", v.Name(), fr.fn)})
	}
	return fr.regs[i]
}

// callFunction runs fn with args and returns its result (Tuple for multi-value).
func (w *Worker) callFunction(fn *ssa.Function, args []Val, bind []Val) Val {
	if r, ok := w.intrinsic(fn, args); ok {
		return r
	}
	if m := w.modelFor(fn); m != nil {
		fn = m
	}
	if fn.Blocks == nil {
		panic(engineError{"no body for " + fn.String() + " (called from " + w.curFn() + ")"})
	}
	if len(w.stack) > 200 {
		panic(engineError{"call depth exceeded"})
	}
	w.noteRecursion(fn)
	fi := w.funcInfo(fn)
	fr := &Frame{fn: fn, regs: make([]Val, fi.n), bind: bind, info: fi}
	for i := range fn.Params {
		if i < len(args) {
			fr.regs[i] = args[i]
		}
	}
	owner := w.curT
	w.stack = append(w.stack, fr)
	defer func() {
		// a thread that is being killed unwinds its Go stack while another thread owns w.stack
		if w.curT == owner && len(w.stack) > 0 {
			w.stack = w.stack[:len(w.stack)-1]
		}
	}()
	return w.run(fr)
}

func (w *Worker) run(fr *Frame) Val {
	block := fr.fn.Blocks[0]
	var prev *ssa.BasicBlock
	visits := make([]int, len(fr.fn.Blocks))
	for {
		visits[block.Index]++
		if visits[block.Index] > w.unwindLimit {
			w.unwindFail("loop bound exceeded in " + fr.fn.String())
		}
		// phis
		nphi := 0
		for _, ins := range block.Instrs {
			if _, ok := ins.(*ssa.Phi); ok {
				nphi++
			} else {
				break
			}
		}
		if nphi > 0 {
			pi := -1
			for i, p := range block.Preds {
				if p == prev {
					pi = i
					break
				}
			}
			vals := make([]Val, nphi)
			for i := 0; i < nphi; i++ {
				vals[i] = w.operand(fr, block.Instrs[i].(*ssa.Phi).Edges[pi])
			}
			for i := 0; i < nphi; i++ {
				fr.regs[fr.info.index[block.Instrs[i].(*ssa.Phi)]] = vals[i]
			}
		}
		var next *ssa.BasicBlock
		for _, ins := range block.Instrs[nphi:] {
			w.instrs++
			fr.cur = ins
			if w.instrs > w.instrLimit {
				w.unwindFail("instruction budget exceeded")
			}
			switch x := ins.(type) {
			case *ssa.If:
				c := w.operand(fr, x.Cond).(*Term)
				if w.branch(c) {
					next = block.Succs[0]
				} else {
					next = block.Succs[1]
				}
			case *ssa.Jump:
				next = block.Succs[0]
			case *ssa.Return:
				switch len(x.Results) {
				case 0:
					return nil
				case 1:
					return w.operand(fr, x.Results[0])
				}
				tp := make(Tuple, len(x.Results))
				for i, r := range x.Results {
					tp[i] = w.operand(fr, r)
				}
				return tp
			case *ssa.Panic:
				v := w.operand(fr, x.X)
				w.goPanic("explicit", w.panicText(v))
			case *ssa.RunDefers:
				w.runDefers(fr)
			case *ssa.Store:
				w.store(w.operand(fr, x.Addr), w.operand(fr, x.Val), x.Val.Type())
			case *ssa.MapUpdate:
				w.mapUpdate(w.operand(fr, x.Map), w.operand(fr, x.Key), w.operand(fr, x.Value))
			case *ssa.Defer:
				fr.defers = append(fr.defers, w.prepCall(fr, &x.Call))
			case *ssa.Go:
				w.goStmt(fr, x)
			case *ssa.Send:
				w.chanSend(w.operand(fr, x.Chan), w.operand(fr, x.X))
			case *ssa.DebugRef:
			case ssa.Value:
				fr.regs[fr.info.index[x]] = w.evalValue(fr, x)
			default:
				panic(engineError{fmt.Sprintf("unsupported instruction %T in %s", ins, fr.fn)})
			}
		}
		if next == nil {
			panic(engineError{"block fell through in " + fr.fn.String()})
		}
		prev, block = block, next
	}
}

func (w *Worker) panicText(v Val) string {
	if i, ok := v.(Iface); ok {
		if s, ok := i.V.(Str); ok {
			if str, ok := w.concreteStr(s); ok {
				return str
			}
			return "<symbolic string>"
		}
		if i.T != nil {
			return "panic value of type " + i.T.String()
		}
	}
	return "panic"
}

func (w *Worker) runDefers(fr *Frame) {
	for len(fr.defers) > 0 {
		d := fr.defers[len(fr.defers)-1]
		fr.defers = fr.defers[:len(fr.defers)-1]
		w.doCall(d)
	}
}

func (w *Worker) prepCall(fr *Frame, c *ssa.CallCommon) deferred {
	d := deferred{call: c}
	d.fn = w.operand(fr, c.Value)
	d.args = make([]Val, len(c.Args))
	for i, a := range c.Args {
		d.args[i] = w.operand(fr, a)
	}
	return d
}

func (w *Worker) doCall(d deferred) Val {
	c := d.call
	if c.IsInvoke() {
		recv, ok := d.fn.(Iface)
		if !ok {
			panic(engineError{fmt.Sprintf("invoke on %T", d.fn)})
		}
		if recv.T == nil {
			w.goPanic("nil-deref", "method call on nil interface "+c.Method.Name())
		}
		fn := w.prog.LookupMethod(recv.T, c.Method.Pkg(), c.Method.Name())
		if fn == nil {
			panic(engineError{"method not found: " + recv.T.String() + "." + c.Method.Name()})
		}
		args := append([]Val{recv.V}, d.args...)
		return w.callFunction(fn, args, nil)
	}
	switch f := d.fn.(type) {
	case *Closure:
		if f == nil {
			w.goPanic("nil-deref", "call of nil func")
		}
		return w.callFunction(f.Fn, d.args, f.Bind)
	case *ssa.Builtin:
		return w.builtin(f, d.args, c)
	}
	panic(engineError{fmt.Sprintf("call of %T", d.fn)})
}

func (w *Worker) evalValue(fr *Frame, v ssa.Value) Val {
	switch x := v.(type) {
	case *ssa.Alloc:
		o := w.allocType(x.Type().Underlying().(*types.Pointer).Elem())
		return Ptr{o.ID, 0}
	case *ssa.BinOp:
		return w.binop(x.Op, w.operand(fr, x.X), w.operand(fr, x.Y), x.X.Type(), x.Y.Type())
	case *ssa.UnOp:
		return w.unop(fr, x)
	case *ssa.Call:
		return w.doCall(w.prepCall(fr, &x.Call))
	case *ssa.ChangeType:
		return w.operand(fr, x.X)
	case *ssa.ChangeInterface:
		return w.operand(fr, x.X)
	case *ssa.Convert:
		return w.convert(w.operand(fr, x.X), x.X.Type(), x.Type())
	case *ssa.MakeInterface:
		return Iface{T: x.X.Type(), V: w.operand(fr, x.X)}
	case *ssa.TypeAssert:
		return w.typeAssert(x, w.operand(fr, x.X))
	case *ssa.Extract:
		return w.operand(fr, x.Tuple).(Tuple)[x.Index]
	case *ssa.Field:
		return w.operand(fr, x.X).(Tuple)[x.Field]
	case *ssa.FieldAddr:
		p := w.operand(fr, x.X)
		pp, ok := p.(Ptr)
		if !ok {
			panic(engineError{fmt.Sprintf("FieldAddr on %T", p)})
		}
		if pp.IsNil() {
			w.goPanic("nil-deref", "nil pointer dereference (field)")
		}
		st := x.X.Type().Underlying().(*types.Pointer).Elem().Underlying().(*types.Struct)
		return Ptr{pp.Obj, pp.Off + w.fieldOffset(st, x.Field)}
	case *ssa.Index:
		return w.indexValue(w.operand(fr, x.X), w.operand(fr, x.Index).(*Term), x.X.Type(), x.Index.Type())
	case *ssa.IndexAddr:
		return w.indexAddr(w.operand(fr, x.X), w.operand(fr, x.Index).(*Term), x.X.Type(), x.Index.Type())
	case *ssa.Lookup:
		return w.lookup(x, w.operand(fr, x.X), w.operand(fr, x.Index))
	case *ssa.Slice:
		return w.sliceOp(fr, x)
	case *ssa.MakeSlice:
		return w.makeSlice(x, w.operand(fr, x.Len).(*Term), w.operand(fr, x.Cap).(*Term), x.Len.Type())
	case *ssa.MakeMap:
		w.mapCnt++
		mt := x.Type().Underlying().(*types.Map)
		return &MapVal{ID: w.mapCnt, KeyV: map[string]Val{}, Vals: map[string]Val{}, VT: mt.Elem()}
	case *ssa.MakeChan:
		return w.makeChan(x, w.operand(fr, x.Size))
	case *ssa.MakeClosure:
		c := &Closure{Fn: x.Fn.(*ssa.Function)}
		for _, b := range x.Bindings {
			c.Bind = append(c.Bind, w.operand(fr, b))
		}
		return c
	case *ssa.Range:
		return w.rangeInit(w.operand(fr, x.X))
	case *ssa.Next:
		return w.rangeNext(x, w.operand(fr, x.Iter))
	case *ssa.Select:
		return w.selectStmt(fr, x)
	case *ssa.SliceToArrayPointer:
		s := w.operand(fr, x.X).(Slice)
		n := int(x.Type().Underlying().(*types.Pointer).Elem().Underlying().(*types.Array).Len())
		if s.Len < n {
			w.goPanic("slice-bounds", "slice to array pointer conversion: length too short")
		}
		if s.IsNil() {
			return Ptr{}
		}
		return Ptr{s.Obj, s.Off}
	}
	panic(engineError{fmt.Sprintf("unsupported value %T in %s", v, fr.fn)})
}

func (w *Worker) unop(fr *Frame, x *ssa.UnOp) Val {
	a := w.operand(fr, x.X)
	switch x.Op {
	case token.MUL:
		if p, ok := a.(Ptr); ok && p.IsNil() {
			w.goPanic("nil-deref", "nil pointer dereference")
		}
		return w.load(a, x.Type())
	case token.SUB:
		return w.ts.BvNeg(a.(*Term))
	case token.XOR:
		return w.ts.BvNot(a.(*Term))
	case token.NOT:
		return w.ts.Not(a.(*Term))
	case token.ARROW:
		return w.chanRecv(a, x.CommaOk, x.Type())
	}
	panic(engineError{"unop " + x.Op.String()})
}

func (w *Worker) shiftAmount(y *Term, wx int) *Term {
	// bring shift count to width wx, saturating
	if y.W == wx {
		return y
	}
	if y.W < wx {
		return w.ts.Zext(y, wx)
	}
	if y.IsConst() {
		if y.C >= uint64(wx) {
			return w.ts.Const(wx, uint64(wx))
		}
		return w.ts.Const(wx, y.C)
	}
	big := w.ts.Cmp(OUle, w.ts.Const(y.W, uint64(wx)), y)
	return w.ts.Ite(big, w.ts.Const(wx, uint64(wx)), w.ts.Extract(y, wx-1, 0))
}

func (w *Worker) binop(op token.Token, a, b Val, ta, tb types.Type) Val {
	ts := w.ts
	if wd, signed, ok := intType(ta); ok {
		if pa, isPtr := a.(Ptr); isPtr {
			// uintptr arithmetic on a pointer: only x^0, x+0, x|0 (runtime noescape idiom)
			if y, ok := b.(*Term); ok && y.IsConst() && y.C == 0 && (op == token.XOR || op == token.ADD || op == token.OR) {
				return pa
			}
			panic(engineError{"pointer arithmetic on uintptr in " + w.curFn()})
		}
		x := a.(*Term)
		y := b.(*Term)
		switch op {
		case token.SHL, token.SHR:
			if _, ys, _ := intType(tb); ys && !y.IsConst() {
				w.oblige(ts.Cmp(OSlt, y, ts.Const(y.W, 0)), "neg-shift", "negative shift amount")
			} else if ys && y.IsConst() && sext64(y.C, y.W) < 0 {
				w.goPanic("neg-shift", "negative shift amount")
			}
			sh := w.shiftAmount(y, wd)
			if op == token.SHL {
				return ts.Bin(OShl, x, sh)
			}
			if signed {
				return ts.Bin(OAshr, x, sh)
			}
			return ts.Bin(OLshr, x, sh)
		}
		switch op {
		case token.ADD:
			return ts.Bin(OAdd, x, y)
		case token.SUB:
			return ts.Bin(OSub, x, y)
		case token.MUL:
			return ts.Bin(OMul, x, y)
		case token.QUO, token.REM:
			w.oblige(ts.Eq(y, ts.Const(wd, 0)), "div-zero", "integer divide by zero")
			if op == token.QUO {
				if signed {
					return ts.Bin(OSdiv, x, y)
				}
				return ts.Bin(OUdiv, x, y)
			}
			if signed {
				return ts.Bin(OSrem, x, y)
			}
			return ts.Bin(OUrem, x, y)
		case token.AND:
			return ts.Bin(OAnd, x, y)
		case token.OR:
			return ts.Bin(OOr, x, y)
		case token.XOR:
			return ts.Bin(OXor, x, y)
		case token.AND_NOT:
			return ts.Bin(OAnd, x, ts.BvNot(y))
		case token.EQL:
			return ts.Eq(x, y)
		case token.NEQ:
			return ts.Not(ts.Eq(x, y))
		case token.LSS:
			if signed {
				return ts.Cmp(OSlt, x, y)
			}
			return ts.Cmp(OUlt, x, y)
		case token.LEQ:
			if signed {
				return ts.Cmp(OSle, x, y)
			}
			return ts.Cmp(OUle, x, y)
		case token.GTR:
			if signed {
				return ts.Cmp(OSlt, y, x)
			}
			return ts.Cmp(OUlt, y, x)
		case token.GEQ:
			if signed {
				return ts.Cmp(OSle, y, x)
			}
			return ts.Cmp(OUle, y, x)
		}
		panic(engineError{"int binop " + op.String()})
	}
	switch op {
	case token.EQL:
		return w.valEq(a, b, ta)
	case token.NEQ:
		return ts.Not(w.valEq(a, b, ta))
	}
	if bt, ok := ta.Underlying().(*types.Basic); ok && bt.Info()&types.IsString != 0 {
		sa, sb := a.(Str), b.(Str)
		switch op {
		case token.ADD:
			if sa.Len == 0 {
				return sb
			}
			if sb.Len == 0 {
				return sa
			}
			o := w.newObj(sa.Len + sb.Len)
			o.ByteObj = true
			for i := 0; i < sa.Len; i++ {
				o.Leaves[i] = w.byteAt(sa.Obj, sa.Off+i)
			}
			for i := 0; i < sb.Len; i++ {
				o.Leaves[sa.Len+i] = w.byteAt(sb.Obj, sb.Off+i)
			}
			return Str{o.ID, 0, sa.Len + sb.Len}
		case token.LSS, token.LEQ, token.GTR, token.GEQ:
			x, ok1 := w.concreteStr(sa)
			y, ok2 := w.concreteStr(sb)
			if !ok1 || !ok2 {
				panic(engineError{"ordered comparison of symbolic strings"})
			}
			switch op {
			case token.LSS:
				return ts.Bool(x < y)
			case token.LEQ:
				return ts.Bool(x <= y)
			case token.GTR:
				return ts.Bool(x > y)
			default:
				return ts.Bool(x >= y)
			}
		}
	}
	if bt, ok := ta.Underlying().(*types.Basic); ok && bt.Info()&types.IsBoolean != 0 {
		x, y := a.(*Term), b.(*Term)
		switch op {
		case token.AND, token.LAND:
			return ts.And(x, y)
		case token.OR, token.LOR:
			return ts.Or(x, y)
		}
	}
	panic(engineError{fmt.Sprintf("binop %s on %s", op, ta)})
}

func (w *Worker) valEq(a, b Val, t types.Type) *Term {
	ts := w.ts
	switch u := t.Underlying().(type) {
	case *types.Basic:
		if u.Info()&types.IsString != 0 {
			return w.strEq(a.(Str), b.(Str))
		}
		if u.Kind() == types.UnsafePointer || u.Kind() == types.UntypedNil {
			return ts.Bool(a == b)
		}
		x, ok1 := a.(*Term)
		y, ok2 := b.(*Term)
		if ok1 && ok2 {
			return ts.Eq(x, y)
		}
		panic(engineError{"valEq basic " + t.String()})
	case *types.Pointer:
		pa, ok1 := a.(Ptr)
		pb, ok2 := b.(Ptr)
		if !ok1 || !ok2 {
			panic(engineError{"pointer comparison of symbolic pointers"})
		}
		return ts.Bool(pa == pb)
	case *types.Interface:
		ia, ib := a.(Iface), b.(Iface)
		if ia.T == nil || ib.T == nil {
			return ts.Bool(ia.T == nil && ib.T == nil)
		}
		if !types.Identical(ia.T, ib.T) {
			return ts.False
		}
		return w.valEq(ia.V, ib.V, ia.T)
	case *types.Struct:
		r := ts.True
		ta, tb := a.(Tuple), b.(Tuple)
		for i := 0; i < u.NumFields(); i++ {
			r = ts.And(r, w.valEq(ta[i], tb[i], u.Field(i).Type()))
		}
		return r
	case *types.Array:
		r := ts.True
		ta, tb := a.(Tuple), b.(Tuple)
		for i := range ta {
			r = ts.And(r, w.valEq(ta[i], tb[i], u.Elem()))
		}
		return r
	case *types.Slice:
		sa, sb := a.(Slice), b.(Slice)
		return ts.Bool(sa.IsNil() && sb.IsNil())
	case *types.Signature:
		ca, cb := a.(*Closure), b.(*Closure)
		return ts.Bool(ca == nil && cb == nil)
	case *types.Map:
		ma, mb := a.(*MapVal), b.(*MapVal)
		return ts.Bool(ma == nil && mb == nil)
	case *types.Chan:
		ca, cb := a.(*ChanVal), b.(*ChanVal)
		return ts.Bool(ca == cb)
	}
	panic(engineError{"valEq: unsupported type " + t.String()})
}

func (w *Worker) convert(v Val, from, to types.Type) Val {
	ts := w.ts
	if wt, _, ok := intType(to); ok {
		if wf, sf, ok := intType(from); ok {
			x := v.(*Term)
			if wt <= wf {
				return ts.Extract(x, wt-1, 0)
			}
			if sf {
				return ts.Sext(x, wt)
			}
			return ts.Zext(x, wt)
		}
		if p, ok := v.(Ptr); ok { // uintptr(unsafe.Pointer): keep the pointer (only noescape-style identities are supported)
			return p
		}
	}
	fu, tu := from.Underlying(), to.Underlying()
	// string <-> []byte
	if tb, ok := tu.(*types.Basic); ok && tb.Info()&types.IsString != 0 {
		switch f := fu.(type) {
		case *types.Slice:
			s := v.(Slice)
			if s.Len == 0 {
				return Str{}
			}
			if w.leafCount(f.Elem()) != 1 {
				break
			}
			if eb, ok := f.Elem().Underlying().(*types.Basic); ok && eb.Kind() == types.Uint8 {
				o := w.newObj(s.Len)
				o.ByteObj = true
				for i := 0; i < s.Len; i++ {
					o.Leaves[i] = w.byteAt(s.Obj, s.Off+i)
				}
				return Str{o.ID, 0, s.Len}
			}
		case *types.Basic:
			if f.Info()&types.IsString != 0 {
				return v
			}
			if f.Info()&types.IsInteger != 0 {
				x := v.(*Term)
				if x.IsConst() {
					return w.strConst(string(rune(sext64(x.C, x.W))))
				}
				// symbolic byte → 1-char string if known < 0x80 is not decidable cheaply; used for error text only
				w.symStrCnt++
				return w.strConst(fmt.Sprintf("<symchar%d>", w.symStrCnt))
			}
		}
	}
	if tsl, ok := tu.(*types.Slice); ok {
		if fb, ok := fu.(*types.Basic); ok && fb.Info()&types.IsString != 0 {
			if eb, ok := tsl.Elem().Underlying().(*types.Basic); ok && eb.Kind() == types.Uint8 {
				s := v.(Str)
				o := w.newObj(s.Len)
				o.ByteObj = true
				for i := 0; i < s.Len; i++ {
					o.Leaves[i] = w.byteAt(s.Obj, s.Off+i)
				}
				return Slice{o.ID, 0, s.Len, s.Len, 1}
			}
		}
		if _, ok := fu.(*types.Slice); ok {
			return v
		}
	}
	// pointer / unsafe.Pointer conversions
	if _, ok := v.(Ptr); ok {
		return v
	}
	if _, ok := v.(Opaque); ok {
		return v
	}
	if types.Identical(fu, tu) {
		return v
	}
	panic(engineError{fmt.Sprintf("convert %s -> %s in %s", from, to, w.curFn())})
}

func (w *Worker) implements(dyn types.Type, it *types.Interface) bool {
	return types.Implements(dyn, it)
}

func (w *Worker) typeAssert(x *ssa.TypeAssert, v Val) Val {
	i := v.(Iface)
	ok := false
	var res Val
	if it, isI := x.AssertedType.Underlying().(*types.Interface); isI {
		if i.T != nil && w.implements(i.T, it) {
			ok = true
			res = i
		} else {
			res = Iface{}
		}
	} else {
		if i.T != nil && types.Identical(i.T, x.AssertedType) {
			ok = true
			res = i.V
		} else {
			res = w.zero(x.AssertedType)
		}
	}
	if x.CommaOk {
		return Tuple{res, w.ts.Bool(ok)}
	}
	if !ok {
		w.goPanic("type-assert", "interface conversion failed to "+x.AssertedType.String())
	}
	return res
}

// idx64 converts an index term to 64 bits by its type's signedness.
func (w *Worker) idx64(idx *Term, t types.Type) *Term {
	if idx.W == 64 {
		return idx
	}
	_, s, _ := intType(t)
	if s {
		return w.ts.Sext(idx, 64)
	}
	return w.ts.Zext(idx, 64)
}

// checkIndex emits the bounds obligation 0<=idx<n and returns concrete index or -1 if symbolic.
func (w *Worker) checkIndex(idx *Term, n int, what string) int {
	if idx.IsConst() {
		i := int64(idx.C)
		if i < 0 || i >= int64(n) {
			w.goPanic("index", fmt.Sprintf("index out of range [%d] with length %d", i, n))
		}
		return int(i)
	}
	w.oblige(w.ts.Not(w.ts.Cmp(OUlt, idx, w.ts.Const(64, uint64(n)))), "index", "index out of range (symbolic index, length "+fmt.Sprint(n)+")")
	return -1
}

func (w *Worker) indexAddr(base Val, idx *Term, tx, ti types.Type) Val {
	idx = w.idx64(idx, ti)
	var obj, off, n, stride int
	var elem types.Type
	switch b := base.(type) {
	case Slice:
		elem = tx.Underlying().(*types.Slice).Elem()
		obj, off, n, stride = b.Obj, b.Off, b.Len, w.leafCount(elem)
	case Ptr:
		if b.IsNil() {
			w.goPanic("nil-deref", "nil pointer dereference (index)")
		}
		arr := tx.Underlying().(*types.Pointer).Elem().Underlying().(*types.Array)
		elem = arr.Elem()
		obj, off, n, stride = b.Obj, b.Off, int(arr.Len()), w.leafCount(elem)
	default:
		panic(engineError{fmt.Sprintf("IndexAddr on %T", base)})
	}
	i := w.checkIndex(idx, n, "index")
	if i >= 0 {
		return Ptr{obj, off + i*stride}
	}
	if _, _, isInt := intType(elem); stride == 1 && isInt {
		return SymPtr{Obj: obj, Base: off, N: n, Idx: idx}
	}
	c := w.concretize(idx, "symbolic index of non-scalar element")
	return Ptr{obj, off + int(c)*stride}
}

func (w *Worker) indexValue(base Val, idx *Term, tx, ti types.Type) Val {
	idx = w.idx64(idx, ti)
	if s, ok := base.(Str); ok {
		i := w.checkIndex(idx, s.Len, "string index")
		if i >= 0 {
			return w.byteAt(s.Obj, s.Off+i)
		}
		return w.loadSym(SymPtr{Obj: s.Obj, Base: s.Off, N: s.Len, Idx: idx}, types.Typ[types.Uint8])
	}
	tp := base.(Tuple)
	i := w.checkIndex(idx, len(tp), "index")
	if i >= 0 {
		return tp[i]
	}
	if _, ok := tp[0].(*Term); ok && len(tp) <= 96 {
		res := tp[len(tp)-1].(*Term)
		for k := len(tp) - 2; k >= 0; k-- {
			res = w.ts.Ite(w.ts.Eq(idx, w.ts.Const(64, uint64(k))), tp[k].(*Term), res)
		}
		return res
	}
	c := w.concretize(idx, "symbolic index of array value")
	return tp[c]
}

func (w *Worker) lookup(x *ssa.Lookup, base Val, key Val) Val {
	if s, ok := base.(Str); ok {
		idx := w.idx64(key.(*Term), x.Index.Type())
		i := w.checkIndex(idx, s.Len, "string index")
		if i >= 0 {
			return w.byteAt(s.Obj, s.Off+i)
		}
		return w.loadSym(SymPtr{Obj: s.Obj, Base: s.Off, N: s.Len, Idx: idx}, types.Typ[types.Uint8])
	}
	m := base.(*MapVal)
	vt := x.X.Type().Underlying().(*types.Map).Elem()
	var v Val
	found := false
	if m != nil {
		k := w.mapKey(key)
		v, found = m.Vals[k]
	}
	if !found {
		v = w.zero(vt)
	}
	if x.CommaOk {
		return Tuple{v, w.ts.Bool(found)}
	}
	return v
}

func (w *Worker) mapKey(k Val) string {
	switch x := k.(type) {
	case Str:
		s, ok := w.concreteStr(x)
		if !ok {
			panic(engineError{"symbolic map key in " + w.curFn()})
		}
		return "s:" + s
	case *Term:
		if !x.IsConst() {
			c := w.concretize(x, "map key")
			return fmt.Sprintf("i:%d", c)
		}
		return fmt.Sprintf("i:%d", x.C)
	case Iface:
		if x.T == nil {
			return "nil"
		}
		return x.T.String() + "/" + w.mapKey(x.V)
	case Ptr:
		return fmt.Sprintf("p:%d:%d", x.Obj, x.Off)
	}
	panic(engineError{fmt.Sprintf("unsupported map key %T", k)})
}

func (w *Worker) mapUpdate(mv, k, v Val) {
	m := mv.(*MapVal)
	if m == nil {
		w.goPanic("nil-map", "assignment to entry in nil map")
	}
	key := w.mapKey(k)
	if _, ok := m.Vals[key]; !ok {
		m.Keys = append(m.Keys, key)
	}
	m.KeyV[key] = k
	m.Vals[key] = v
}

func (w *Worker) sliceOp(fr *Frame, x *ssa.Slice) Val {
	base := w.operand(fr, x.X)
	get := func(v ssa.Value) *Term {
		if v == nil {
			return nil
		}
		return w.idx64(w.operand(fr, v).(*Term), v.Type())
	}
	lo, hi, max := get(x.Low), get(x.High), get(x.Max)
	var obj, off, length, capacity, stride int
	isStr := false
	switch b := base.(type) {
	case Slice:
		obj, off, length, capacity, stride = b.Obj, b.Off, b.Len, b.Cap, b.Stride
		if stride == 0 {
			stride = w.leafCount(x.X.Type().Underlying().(*types.Slice).Elem())
		}
	case Str:
		obj, off, length, capacity, stride = b.Obj, b.Off, b.Len, b.Len, 1
		isStr = true
	case Ptr:
		if b.IsNil() {
			w.goPanic("nil-deref", "slice of nil array pointer")
		}
		arr := x.X.Type().Underlying().(*types.Pointer).Elem().Underlying().(*types.Array)
		stride = w.leafCount(arr.Elem())
		obj, off, length, capacity = b.Obj, b.Off, int(arr.Len()), int(arr.Len())
	default:
		panic(engineError{fmt.Sprintf("Slice of %T", base)})
	}
	ts := w.ts
	c64 := func(i int) *Term { return ts.Const(64, uint64(i)) }
	if lo == nil {
		lo = c64(0)
	}
	upper := capacity
	if isStr {
		upper = length
	}
	if hi == nil {
		hi = c64(length)
	}
	// obligations: 0 <= lo <= hi <= max <= cap
	bad := ts.False
	if max != nil {
		bad = ts.Or(bad, ts.Not(ts.Cmp(OUle, max, c64(capacity))))
		bad = ts.Or(bad, ts.Not(ts.Cmp(OUle, hi, max)))
	} else {
		bad = ts.Or(bad, ts.Not(ts.Cmp(OUle, hi, c64(upper))))
	}
	bad = ts.Or(bad, ts.Not(ts.Cmp(OUle, lo, hi)))
	if bad.isTrue() {
		w.goPanic("slice-bounds", fmt.Sprintf("slice bounds out of range [%s:%s] cap %d", valString(lo), valString(hi), capacity))
	}
	if !bad.isFalse() {
		w.oblige(bad, "slice-bounds", "slice bounds out of range (symbolic)")
	}
	l := int(w.concretize(lo, "slice low bound"))
	h := int(w.concretize(hi, "slice high bound"))
	m := capacity
	if max != nil {
		m = int(w.concretize(max, "slice max bound"))
	}
	if isStr {
		return Str{obj, off + l, h - l}
	}
	if obj == 0 {
		return Slice{}
	}
	return Slice{obj, off + l*stride, h - l, m - l, stride}
}

// runtime.makeslice panics when len<0, len>cap or len*elemsize exceeds maxAlloc (2^48 on
// linux/amd64); anything smaller is attempted.
const maxAlloc = 1 << 48

// engineAllocCap: allocations of more elements than this are not followed (stated bound).
const engineAllocCap = 1 << 22

func (w *Worker) makeSlice(x *ssa.MakeSlice, ln, cp *Term, lt types.Type) Val {
	ts := w.ts
	ln = w.idx64(ln, lt)
	cp = w.idx64(cp, x.Cap.Type())
	elem := x.Type().Underlying().(*types.Slice).Elem()
	// runtime.makeslice panics if len<0, len>cap, or size overflows / exceeds max alloc
	es := uint64(8)
	if wd, _, ok := intType(elem); ok {
		es = uint64(wd / 8)
	} else if w.leafCount(elem) > 1 {
		es = 8 * uint64(w.leafCount(elem))
	}
	limit := uint64(maxAlloc) / es
	bad := ts.Or(ts.Not(ts.Cmp(OUle, ln, cp)), ts.Not(ts.Cmp(OUle, cp, ts.Const(64, limit))))
	if bad.isTrue() {
		w.goPanic("makeslice", "makeslice: len out of range")
	}
	if !bad.isFalse() {
		w.oblige(bad, "makeslice", "makeslice: len out of range")
	}
	if !cp.IsConst() {
		// engine bound: do not follow allocations above engineAllocCap elements
		big := ts.Cmp(OUlt, ts.Const(64, engineAllocCap), cp)
		if !w.inPrefix() {
			w.ensureModel()
			if w.evalBool(big) || w.sol.Check(big) {
				w.notes["allocation of more than 4Mi elements not followed (engine bound) in "+shortFn(w.libSite())] = true
			}
		}
		w.assume(ts.Not(big))
	}
	l := int(w.concretize(ln, "make length"))
	c := int(w.concretize(cp, "make capacity"))
	if c > engineAllocCap {
		w.notes["allocation of more than 4Mi elements not followed (engine bound) in "+shortFn(w.libSite())] = true
		panic(pathEnd{"alloc-bound"})
	}
	o := w.allocElems(elem, c)
	return Slice{o.ID, 0, l, c, w.leafCount(elem)}
}

func (w *Worker) rangeInit(v Val) Val {
	switch x := v.(type) {
	case *MapVal:
		it := &rangeIter{m: x}
		if x != nil {
			it.keys = append([]string(nil), x.Keys...)
		}
		return it
	case Str:
		return &rangeIter{s: x, isStr: true}
	}
	panic(engineError{fmt.Sprintf("range over %T", v)})
}

type rangeIter struct {
	m     *MapVal
	keys  []string
	pos   int
	s     Str
	isStr bool
}

func (w *Worker) rangeNext(x *ssa.Next, itv Val) Val {
	it := itv.(*rangeIter)
	ts := w.ts
	if it.isStr {
		if it.pos >= it.s.Len {
			return Tuple{ts.False, ts.Const(64, 0), ts.Const(32, 0)}
		}
		b := w.byteAt(it.s.Obj, it.s.Off+it.pos)
		ascii := false
		if !b.IsConst() {
			ascii = !w.branch(ts.Cmp(OUle, ts.Const(8, 0x80), b))
		} else {
			ascii = b.C < 0x80
		}
		if ascii {
			r := Tuple{ts.True, ts.Const(64, uint64(it.pos)), ts.Zext(b, 32)}
			it.pos++
			return r
		}
		// a multi-byte (or invalid) sequence: decode it with the real unicode/utf8 code, whose
		// branches on the bytes fork the path; the width it returns is concrete on every path
		rest := Str{it.s.Obj, it.s.Off + it.pos, it.s.Len - it.pos}
		dv := w.callNamed("unicode/utf8", "DecodeRuneInString", []Val{rest}).(Tuple)
		size := int(w.concretize(dv[1].(*Term), "rune width"))
		if size < 1 {
			size = 1
		}
		r := Tuple{ts.True, ts.Const(64, uint64(it.pos)), dv[0].(*Term)}
		it.pos += size
		return r
	}
	for it.pos < len(it.keys) {
		k := it.keys[it.pos]
		it.pos++
		if v, ok := it.m.Vals[k]; ok {
			return Tuple{ts.True, it.m.KeyV[k], v}
		}
	}
	tt := x.Type().(*types.Tuple)
	return Tuple{ts.False, w.zero(tt.At(1).Type()), w.zero(tt.At(2).Type())}
}

// modelFor redirects calls of unencodable library functions (e.g. net/http.ReadResponse) to a
// model written in Go in the harness package: func vModel_<path with _>_<Name>(...).
func (w *Worker) modelFor(fn *ssa.Function) *ssa.Function {
	if fn.Pkg == nil || w.cur == nil || fn.Blocks != nil && w.isHarnessFn(fn) {
		return nil
	}
	if v, ok := w.models[fn]; ok {
		return v
	}
	var m *ssa.Function
	if fn.Signature.Recv() == nil && fn.Parent() == nil {
		name := "vModel_" + strings.NewReplacer("/", "_", ".", "_").Replace(fn.Pkg.Pkg.Path()) + "_" + fn.Name()
		if hp := w.cur.Fn.Pkg; hp != nil {
			m = hp.Func(name)
		}
	} else if recv := fn.Signature.Recv(); recv != nil && fn.Parent() == nil && fn.Synthetic == "" {
		// a method: func vModel_<path with _>_<Type>_<Name>(recv, ...) (e.g. crypto/tls.Conn's I/O
		// methods, whose bodies are cryptography the engine does not follow)
		t := recv.Type()
		if pt, ok := t.(*types.Pointer); ok {
			t = pt.Elem()
		}
		if nt, ok := t.(*types.Named); ok {
			name := "vModel_" + strings.NewReplacer("/", "_", ".", "_").Replace(fn.Pkg.Pkg.Path()) + "_" + nt.Obj().Name() + "_" + fn.Name()
			if hp := w.cur.Fn.Pkg; hp != nil {
				m = hp.Func(name)
			}
		}
	}
	w.models[fn] = m
	return m
}
