package main

import (
	"fmt"
	"go/types"

	"golang.org/x/tools/go/ssa"
)

// Val is an engine value: *Term | Ptr | SymPtr | Slice | Str | Iface | *Closure | Tuple | *MapVal | *ChanVal | Opaque | *ssa.Builtin
type Val interface{}

// Ptr points at leaf Off of object Obj. Obj==0 is nil.
type Ptr struct {
	Obj int
	Off int
}

// SymPtr points at a scalar leaf Base+Idx of Obj, Idx symbolic in [0,N).
type SymPtr struct {
	Obj  int
	Base int
	N    int
	Idx  *Term // 64 bit
}

// Slice: concrete bounds. Stride = leaves per element. Obj==0 is nil.
type Slice struct {
	Obj    int
	Off    int // leaf offset of element 0
	Len    int
	Cap    int
	Stride int
}

// Str is a string: bytes Off..Off+Len of an (immutable) byte object. Obj may be 0 when Len==0.
type Str struct {
	Obj int
	Off int
	Len int
}

// Iface is an interface value; T==nil is the nil interface.
type Iface struct {
	T types.Type
	V Val
}

// Closure is a function value. nil *Closure is the nil func.
type Closure struct {
	Fn   *ssa.Function
	Bind []Val
	// bound method value on interface or concrete receiver (ssa handles via $bound wrappers)
}

// Tuple is a struct/array/multi-value.
type Tuple []Val

// MapVal is a map with concrete keys (string or int keys, by key string).
type MapVal struct {
	ID   int
	Keys []string
	KeyV map[string]Val
	Vals map[string]Val
	VT   types.Type
}

// Opaque is an uninterpreted handle (e.g. pool objects).
type Opaque struct {
	Name string
}

// Obj is a heap object made of leaves.
type Obj struct {
	ID      int
	Leaves  []Val
	Garbage bool // nil leaves are arbitrary recycled content
	Frozen  bool // existed when the harness called vFreezeShared: memory shared between sessions
	Pooled  int  // 0 no, 1 live pooled, 2 released
	Base    bool // lives in the base (init-time) heap
	Tag     string
	ByteObj bool
}

func (v Ptr) IsNil() bool   { return v.Obj == 0 }
func (v Slice) IsNil() bool { return v.Obj == 0 }

func valString(v Val) string {
	switch x := v.(type) {
	case *Term:
		if x.IsConst() {
			if x.W == 0 {
				return fmt.Sprint(x.C != 0)
			}
			return fmt.Sprintf("%d", x.C)
		}
		return fmt.Sprintf("<sym%d w%d>", x.id, x.W)
	case nil:
		return "nil"
	}
	return fmt.Sprintf("%T%v", v, v)
}
