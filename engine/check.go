package main

import (
	"bufio"
	"encoding/json"
	"fmt"
	"os"
	"os/exec"
	"path/filepath"
	"regexp"
	"runtime"
	"sort"
	"strconv"
	"strings"
	"time"
)

type ReplayIn struct {
	Property string            `json:"property"`
	Harness  string            `json:"harness"`
	Tier     int               `json:"tier"`
	Choices  []uint64          `json:"choices"`
	Values   map[string]uint64 `json:"values"`
	Expect   *ReplayExpect     `json:"expect,omitempty"`
	// Twice: run the scenario twice in one fresh process and report a difference between the two
	// runs (native confirmation of a shared-state monitor hit: state leaked from run 1 into run 2)
	Twice bool `json:"twice,omitempty"`
}

type ReplayExpect struct {
	Kind    string     `json:"kind"` // assert | panic | witness
	Assert  string     `json:"assert,omitempty"`
	Site    string     `json:"site,omitempty"`
	Msg     string     `json:"msg,omitempty"`
	Reached []string   `json:"reached,omitempty"`
	Traces  []TraceRec `json:"traces,omitempty"`
}

type ReplayOut struct {
	End     string     `json:"end"`
	Msg     string     `json:"msg"`
	Reached []string   `json:"reached"`
	Failed  []string   `json:"failed"`
	Traces  []TraceRec `json:"traces"`
}

type KnownFinding struct {
	Property, Harness, Assert, Kind, Site, Desc string
	Fixed                                       bool
}

func loadKnown() []KnownFinding {
	var out []KnownFinding
	f, err := os.Open(filepath.Join(verifDir, "known_findings.txt"))
	if err != nil {
		return nil
	}
	defer f.Close()
	sc := bufio.NewScanner(f)
	for sc.Scan() {
		line := strings.TrimSpace(sc.Text())
		if line == "" || strings.HasPrefix(line, "#") {
			continue
		}
		k := KnownFinding{}
		if strings.HasPrefix(line, "fixed:") {
			k.Fixed = true
		} else if !strings.HasPrefix(line, "known:") {
			continue
		}
		body := line[strings.Index(line, ":")+1:]
		if i := strings.Index(body, "|"); i >= 0 {
			k.Desc = strings.TrimSpace(body[i+1:])
			body = body[:i]
		}
		for _, f := range strings.Fields(body) {
			kv := strings.SplitN(f, "=", 2)
			if len(kv) != 2 {
				continue
			}
			switch kv[0] {
			case "property":
				k.Property = kv[1]
			case "harness":
				k.Harness = kv[1]
			case "assert":
				k.Assert = kv[1]
			case "kind":
				k.Kind = kv[1]
			case "site":
				k.Site = kv[1]
			}
		}
		out = append(out, k)
	}
	return out
}

func (k KnownFinding) matches(prop string, v *Violation) bool {
	if k.Fixed || k.Property != prop {
		return false
	}
	return k.Harness == v.Harness && k.Assert == v.Assert && k.Kind == v.Kind && (k.Site == "" || k.Site == shortFn(v.Site))
}

// nativeReplay runs the replay inputs of one package against the natively built harness.
// replayTimeout: deadline of one native `go test` run (the batch of all replay inputs of a package;
// single inputs re-run after a crash or hang get a shorter one).
var replayTimeout = "4m"

func nativeReplay(l *Loaded, short string, inputs map[string]*ReplayIn, race bool) (map[string]*ReplayOut, string, error) {
	tmp, err := os.MkdirTemp("", "symgo-replay-")
	if err != nil {
		return nil, "", err
	}
	defer os.RemoveAll(tmp)
	inDir := filepath.Join(tmp, "in")
	os.MkdirAll(inDir, 0755)
	for name, in := range inputs {
		b, _ := json.Marshal(in)
		os.WriteFile(filepath.Join(inDir, name+".in.json"), b, 0644)
	}
	dir := filepath.Join(repoDir, pkgDirs[short])
	// generated test file listing the harness functions
	var sb strings.Builder
	pkgName := short
	sb.WriteString("//go:build verif\n\npackage " + pkgName + "\n\nimport \"testing\"\n\nfunc TestVerifReplay(t *testing.T) {\n\tvRunReplays(map[string]func(){\n")
	for _, h := range l.harnesses[short] {
		fmt.Fprintf(&sb, "\t\t%q: %s,\n", h, h)
	}
	sb.WriteString("\t})\n}\n")
	ov := map[string]string{}
	testFile := filepath.Join(tmp, "zz_verif_replay_test.go")
	os.WriteFile(testFile, []byte(sb.String()), 0644)
	ov[filepath.Join(dir, "zz_verif_replay_test.go")] = testFile
	i := 0
	for virt, src := range l.overlay {
		if filepath.Dir(virt) != dir {
			continue
		}
		i++
		real := filepath.Join(tmp, fmt.Sprintf("ov%d.go", i))
		os.WriteFile(real, src, 0644)
		ov[virt] = real
	}
	ovb, _ := json.Marshal(map[string]interface{}{"Replace": ov})
	ovFile := filepath.Join(tmp, "overlay.json")
	os.WriteFile(ovFile, ovb, 0644)
	args := []string{"test", "-tags", "verif", "-overlay", ovFile, "-run", "^TestVerifReplay$", "-count=1", "-vet=off", "-timeout", replayTimeout}
	if race {
		args = append(args, "-race")
	}
	args = append(args, ".")
	cmd := exec.Command("go", args...)
	cmd.Dir = dir
	cmd.Env = append(os.Environ(), "GOFLAGS=-mod=mod", "GOPROXY=off", "GOSUMDB=off", "GOTOOLCHAIN=local", "VERIF_REPLAY_DIR="+inDir, map[bool]string{false: "GOMAXPROCS=1", true: "GOMAXPROCS=8"}[race])
	outb, err := cmd.CombinedOutput()
	res := map[string]*ReplayOut{}
	for name := range inputs {
		b, e := os.ReadFile(filepath.Join(inDir, name+".out.json"))
		if e != nil {
			continue
		}
		o := &ReplayOut{}
		if json.Unmarshal(b, o) == nil {
			res[name] = o
		}
	}
	return res, string(outb), err
}

func tracesEqual(a, b []TraceRec) (bool, string) {
	if len(a) != len(b) {
		return false, fmt.Sprintf("trace length %d vs %d", len(a), len(b))
	}
	for i := range a {
		if a[i] != b[i] {
			return false, fmt.Sprintf("trace[%d] engine %s=%d native %s=%d", i, a[i].ID, a[i].Val, b[i].ID, b[i].Val)
		}
	}
	return true, ""
}

func strsEqual(a, b []string) bool {
	if len(a) != len(b) {
		return false
	}
	for i := range a {
		if a[i] != b[i] {
			return false
		}
	}
	return true
}

func envInt(name string, def int) int {
	if v := os.Getenv(name); v != "" {
		if n, err := strconv.Atoi(v); err == nil {
			return n
		}
	}
	return def
}

type tierCfg struct {
	maxPaths int
	timeout  time.Duration
	witnessN int
}

// outDir: evidence and replay files of the registered checks go under /verif; when the engine is
// pointed at another tree (VERIF_REPO: evaluation of a seeded change in a scratch worktree) they
// go to a scratch directory instead, so that /verif/evidence only ever describes /repo.
func outDir() string {
	if os.Getenv("VERIF_REPO") != "" {
		return filepath.Join(os.TempDir(), "symgo-scratch")
	}
	return verifDir
}

func checkMain(args []string) int {
	if len(args) < 2 {
		fatal("usage: symgo check <property> quick|thorough")
	}
	prop := args[0]
	tierName := args[1]
	tier := 0
	cfg := tierCfg{maxPaths: 400000, timeout: 25 * time.Minute, witnessN: 6} // (C04 needs ~2 min on 16 idle cores, ~4 min on a loaded machine)
	if tierName == "thorough" {
		tier = 1
		cfg = tierCfg{maxPaths: 5000000, timeout: 100 * time.Minute, witnessN: 24}
	}
	if v := os.Getenv("VERIF_TIMEOUT_S"); v != "" {
		cfg.timeout = time.Duration(envInt("VERIF_TIMEOUT_S", 480)) * time.Second
	}
	seed := int64(envInt("VERIF_SEED", 0))
	solver := os.Getenv("VERIF_SOLVER")
	if solver == "" {
		solver = "z3-new"
	}
	start := time.Now()
	l := load()
	pat := regexp.MustCompile("^" + prop + "_")
	hs := runEngine(l, RunConfig{Pattern: pat, Tier: tier, Workers: envInt("VERIF_WORKERS", runtime.NumCPU()), MaxPaths: cfg.maxPaths,
		Timeout: cfg.timeout, Solver: solver, WitnessN: cfg.witnessN, Seed: seed})
	if len(hs) == 0 {
		fmt.Printf("INCONCLUSIVE property=%s no harness available (dropped: %v)\n", prop, l.dropped)
		return 2
	}
	known := loadKnown()
	inconclusive := []string{}
	for _, d := range l.dropped {
		if strings.HasPrefix(d, "zz_verif_"+strings.ToLower(prop)) {
			inconclusive = append(inconclusive, "harness file "+d+" does not type-check against the current tree and was dropped: coverage of this property is reduced")
		}
	}

	// collect replay inputs
	type pending struct {
		name  string
		in    *ReplayIn
		viol  *Violation
		wit   *Witness
		short string
	}
	var pend []*pending
	for _, h := range hs {
		short := h.Name[:strings.Index(h.Name, ".")]
		s := h.Stats
		if s.Incomplete {
			inconclusive = append(inconclusive, h.Name+": exploration incomplete (path/time budget)")
		}
		for _, e := range s.Errors {
			inconclusive = append(inconclusive, h.Name+": "+e)
		}
		if s.Paths == 0 && len(s.Errors) == 0 {
			inconclusive = append(inconclusive, h.Name+": vacuous (no feasible path)")
		}
		for i, v := range s.Violations {
			in := &ReplayIn{Property: prop, Harness: h.Name, Tier: tier, Choices: v.Choices, Values: v.Values,
				Expect: &ReplayExpect{Kind: v.Kind, Assert: v.Assert, Site: shortFn(v.Site), Msg: v.Msg}}
			pend = append(pend, &pending{name: fmt.Sprintf("%s-viol%d", h.Name, i), in: in, viol: v, short: short})
		}
		for i, wt := range s.Witnesses {
			in := &ReplayIn{Property: prop, Harness: h.Name, Tier: tier, Choices: wt.Choices, Values: wt.Values,
				Expect: &ReplayExpect{Kind: "witness", Reached: wt.Reached, Traces: wt.Traces}}
			pend = append(pend, &pending{name: fmt.Sprintf("%s-wit%d", h.Name, i), in: in, wit: wt, short: short})
		}
	}
	// run native replays per package
	outs := map[string]*ReplayOut{}
	byPkg := map[string]map[string]*ReplayIn{}
	for _, p := range pend {
		if byPkg[p.short] == nil {
			byPkg[p.short] = map[string]*ReplayIn{}
		}
		byPkg[p.short][p.name] = p.in
	}
	replayStart := time.Now()
	replayLogs := map[string]string{}
	crashed := map[string]string{} // replay input name -> fatal runtime error of its own native process
	for short, ins := range byPkg {
		res, log, err := nativeReplay(l, short, ins, prop == "C19")
		replayLogs[short] = log
		for k, v := range res {
			outs[k] = v
		}
		if len(res) != len(ins) {
			// the test binary died (a fatal runtime error such as a stack overflow kills the whole
			// process): run the inputs without an output one by one, each in a process of its own,
			// so that the crash is attributed to the scenario that causes it
			missing := []string{}
			for name := range ins {
				if res[name] == nil {
					missing = append(missing, name)
				}
			}
			sort.Strings(missing)
			still := 0
			for i, name := range missing {
				if i >= 60 {
					still += len(missing) - i
					break
				}
				if len(crashed) >= 3 {
					still += len(missing) - i // enough scenarios attributed; the rest stays without a native verdict
					break
				}
				replayTimeout = "60s"
				r1, log1, _ := nativeReplay(l, short, map[string]*ReplayIn{name: ins[name]}, prop == "C19")
				replayTimeout = "4m"
				if r1[name] != nil {
					outs[name] = r1[name]
					continue
				}
				if strings.Contains(log1, "test timed out") {
					// once more, alone and with twice the time, before calling it a hang
					replayTimeout = "120s"
					r2, log2, _ := nativeReplay(l, short, map[string]*ReplayIn{name: ins[name]}, prop == "C19")
					replayTimeout = "4m"
					if r2[name] != nil {
						outs[name] = r2[name]
						continue
					}
					if strings.Contains(log2, "test timed out") {
						crashed[name] = "hang: the native run of this scenario did not finish within 60 s, nor within 120 s when repeated"
						continue
					}
				}
				if strings.Contains(log1, "stack overflow") || strings.Contains(log1, "goroutine stack exceeds") {
					crashed[name] = "fatal error: stack overflow (" + firstLine(tail(log1, 400)) + ")"
					continue
				}
				if i := strings.Index(log1, "\npanic: "); i >= 0 {
					// the scenario run ALONE in a fresh process takes the whole process down (an
					// unrecovered panic in a goroutine of the concurrent phase, for instance)
					crashed[name] = "the process died: " + firstLine(log1[i+1:])
					continue
				}
				if i := strings.Index(log1, "\nfatal error: "); i >= 0 {
					crashed[name] = "the process died: " + firstLine(log1[i+1:])
					continue
				}
				still++
				inconclusive = append(inconclusive, fmt.Sprintf("native replay of %s produced no output: %s", name, tail(log1, 1500)))
			}
			if still > 0 {
				inconclusive = append(inconclusive, fmt.Sprintf("native replay for package %s incomplete (%d inputs without output): %v", short, still, err))
			}
		}
	}
	replayTime := time.Since(replayStart)

	validated := 0
	violations := 0
	twiceRuns := map[string]int{}
	knownHits := map[string]bool{}
	replayDir := filepath.Join(outDir(), "replays", prop)
	os.RemoveAll(replayDir)
	var violLines []string
	sampleViol := []map[string]interface{}{}
	for _, p := range pend {
		out := outs[p.name]
		if msg, ok := crashed[p.name]; ok {
			// the scenario kills the process natively: a violation of "never panics" whichever
			// role (witness or counterexample) the engine gave these inputs
			validated++
			violations++
			os.MkdirAll(replayDir, 0755)
			path := filepath.Join(replayDir, p.name+".json")
			p.in.Expect = &ReplayExpect{Kind: "crash", Msg: msg}
			b, _ := json.MarshalIndent(p.in, "", " ")
			os.WriteFile(path, b, 0644)
			violLines = append(violLines, fmt.Sprintf("VIOLATION property=%s replay=%s", prop, path))
			fmt.Printf("  detail: harness=%s the native run of this scenario died: %s\n", p.in.Harness, msg)
			continue
		}
		if out == nil {
			continue
		}
		if p.wit != nil {
			// assertions that exist only natively (concurrent stress phase) are not part of the comparison
			out.Reached = dropNativeOnly(out.Reached)
			var tr []TraceRec
			for _, t := range out.Traces {
				if !strings.Contains(t.ID, ".concurrent_") {
					tr = append(tr, t)
				}
			}
			out.Traces = tr
			ok := out.End == "done" && strsEqual(out.Reached, p.wit.Reached) && len(out.Failed) == 0
			why := ""
			if prop == "C19" && out.End == "done" && len(out.Failed) > 0 && strsEqual(out.Reached, p.wit.Reached) {
				// the sequential part agrees with the engine, and the concurrent phase (which only
				// exists natively) observed something else than the sequential run: interference
				// between sessions, confirmed when it happens again in a fresh process
				again, _, _ := nativeReplay(l, p.short, map[string]*ReplayIn{p.name: p.in}, true)
				if a := again[p.name]; a != nil && a.End == "done" && len(a.Failed) > 0 {
					validated++
					violations++
					os.MkdirAll(replayDir, 0755)
					path := filepath.Join(replayDir, p.name+".json")
					p.in.Expect = &ReplayExpect{Kind: "assert", Assert: out.Failed[0]}
					b, _ := json.MarshalIndent(p.in, "", " ")
					os.WriteFile(path, b, 0644)
					violLines = append(violLines, fmt.Sprintf("VIOLATION property=%s replay=%s", prop, path))
					fmt.Printf("  detail: harness=%s native concurrent phase failed %v (twice)\n", p.in.Harness, out.Failed)
					continue
				}
			}
			if prop == "C20" {
				// the native run uses the real scheduler and real time: its interleaving (hence
				// which assertions are reached) may differ from the engine's path; what is
				// validated is that the scenario runs natively and every assertion it reaches holds
				ok = out.End == "done" && len(out.Failed) == 0
				if !ok {
					why = fmt.Sprintf("native end=%s msg=%s failed=%v", out.End, firstLine(out.Msg), out.Failed)
				}
				if out.End == "done" && len(out.Failed) > 0 {
					// the real scheduler hit an interleaving in which an assertion fails: that is a
					// natively observed violation (the engine may have followed another interleaving) —
					// provided it fails again when the scenario is run once more in a process of its
					// own (real time on a loaded machine is not evidence by itself)
					again, _, _ := nativeReplay(l, p.short, map[string]*ReplayIn{p.name: p.in}, false)
					if a := again[p.name]; a == nil || a.End != "done" || len(a.Failed) == 0 {
						fmt.Printf("NOTE: %s: a native witness run failed %v once and passed when repeated alone: not counted (timing)\n", p.in.Harness, out.Failed)
						validated++
						continue
					}
					validated++
					violations++
					os.MkdirAll(replayDir, 0755)
					path := filepath.Join(replayDir, p.name+".json")
					p.in.Expect = &ReplayExpect{Kind: "assert", Assert: out.Failed[0]}
					b, _ := json.MarshalIndent(p.in, "", " ")
					os.WriteFile(path, b, 0644)
					violLines = append(violLines, fmt.Sprintf("VIOLATION property=%s replay=%s", prop, path))
					fmt.Printf("  detail: harness=%s native run of a witness scenario failed %v\n", p.in.Harness, out.Failed)
					continue
				}
			} else if ok {
				ok, why = tracesEqual(p.wit.Traces, out.Traces)
			} else {
				why = fmt.Sprintf("native end=%s msg=%s reached=%v failed=%v; engine reached=%v", out.End, firstLine(out.Msg), out.Reached, out.Failed, p.wit.Reached)
			}
			if ok {
				validated++
			} else {
				b, _ := json.Marshal(p.in)
				inconclusive = append(inconclusive, fmt.Sprintf("%s: witness replay mismatch (engine/translator disagreement): %s input=%s", p.in.Harness, why, b))
			}
			continue
		}
		v := p.viol
		repro := false
		switch {
		case v.Kind == "assert":
			for _, f := range out.Failed {
				if f == v.Assert {
					repro = true
				}
			}
		case strings.HasPrefix(v.Kind, "panic"):
			repro = out.End == "panic"
		case v.Kind == "recursion":
			// natively the harness scales the same input up under a small stack limit: the test
			// binary dies with the runtime's fatal stack overflow (no output file for this input)
			single, log, _ := nativeReplay(l, p.short, map[string]*ReplayIn{p.name: p.in}, false)
			if single[p.name] == nil && (strings.Contains(log, "stack overflow") || strings.Contains(log, "goroutine stack exceeds")) {
				repro = true
			}
		case v.Kind == "unwind":
			repro = false
		case v.Kind == "global-write" || v.Kind == "pool":
			// confirmed by the native concurrent stress run: the race detector reports a race, or
			// the concurrent observations differ from the sequential ones
			if strings.Contains(replayLogs[p.short], "DATA RACE") {
				repro = true
			}
			for _, f := range out.Failed {
				if strings.Contains(f, "concurrent") {
					repro = true
				}
			}
			if (out.End == "done" || (out.End == "mismatch" && strings.Contains(out.Msg, "choices exhausted"))) && len(out.Failed) > 0 {
				// the native run of the very inputs the monitor fired on fails an assertion (e.g.
				// the destination received recycled bytes): the misbehaviour is observable.  (The
				// engine's path ends where the monitor fires, so the native run may ask for a
				// choice the path never made: what it had observed by then still counts.)
				repro = true
			}
			if !repro && twiceRuns[v.Harness] < 3 {
				// a fresh process of its own, the scenario run twice: the second run must
				// observe exactly what the first did
				twiceRuns[v.Harness]++
				in2 := *p.in
				in2.Twice = true
				if o2, _, _ := nativeReplay(l, p.short, map[string]*ReplayIn{p.name: &in2}, false); o2[p.name] != nil {
					for _, f := range o2[p.name].Failed {
						if f == "shared-state.second_run_differs" {
							repro = true
							p.in.Twice = true
						}
					}
				}
			}
		}
		isKnown := false
		for _, k := range known {
			if k.matches(prop, v) {
				isKnown = true
				key := k.Harness + "|" + k.Assert + "|" + k.Kind + "|" + k.Site
				if repro && !knownHits[key] {
					knownHits[key] = true
					fmt.Printf("KNOWN-FINDING: property=%s harness=%s assert=%s kind=%s site=%s %s\n", prop, v.Harness, v.Assert, v.Kind, shortFn(v.Site), k.Desc)
				}
			}
		}
		if isKnown && repro {
			validated++
			continue
		}
		if !repro {
			if v.Kind == "unwind" {
				inconclusive = append(inconclusive, fmt.Sprintf("%s: unwinding/concretisation bound exceeded at %s: %s", v.Harness, shortFn(v.Site), v.Msg))
			} else {
				b, _ := json.Marshal(p.in)
				inconclusive = append(inconclusive, fmt.Sprintf("%s: counterexample for %s (%s at %s) did NOT reproduce natively (native end=%s failed=%v msg=%s) input=%s", v.Harness, v.Assert, v.Kind, shortFn(v.Site), out.End, out.Failed, firstLine(out.Msg), b))
			}
			continue
		}
		validated++
		violations++
		os.MkdirAll(replayDir, 0755)
		path := filepath.Join(replayDir, p.name+".json")
		b, _ := json.MarshalIndent(p.in, "", " ")
		os.WriteFile(path, b, 0644)
		violLines = append(violLines, fmt.Sprintf("VIOLATION property=%s replay=%s", prop, path))
		fmt.Printf("  detail: harness=%s assert=%s kind=%s site=%s msg=%s native=%s\n", v.Harness, v.Assert, v.Kind, shortFn(v.Site), v.Msg, firstLine(out.Msg))
		if len(sampleViol) < 5 {
			sampleViol = append(sampleViol, map[string]interface{}{"harness": v.Harness, "assert": v.Assert, "kind": v.Kind, "site": shortFn(v.Site), "values": v.Values, "choices": v.Choices})
		}
	}
	// global writes (C19 obligation O1) are reported for every property
	for _, h := range hs {
		for _, g := range h.Stats.GlobalWrite {
			fmt.Printf("NOTE: %s: store to package-level state after init: %s\n", h.Name, g)
		}
	}

	// evidence
	writeEvidence(prop, tierName, tier, seed, solver, l, hs, validated, violations, len(knownHits), inconclusive, time.Since(start), replayTime, sampleViol)

	for _, h := range hs {
		s := h.Stats
		fmt.Printf("%-44s paths=%d pruned=%d instrs=%d queries=%d (sat %d / unsat %d) solver=%s\n", s.Name, s.Paths, s.Pruned, s.Instrs, s.Queries, s.Sat, s.Unsat, s.SolverTime.Round(time.Millisecond))
	}
	fmt.Printf("property=%s tier=%s harnesses=%d native-replays-validated=%d violations=%d known=%d wall=%.1fs\n", prop, tierName, len(hs), validated, violations, len(knownHits), time.Since(start).Seconds())
	for _, v := range violLines {
		fmt.Println(v)
	}
	for _, m := range inconclusive {
		fmt.Printf("INCONCLUSIVE property=%s %s\n", prop, m)
	}
	if violations > 0 {
		return 1
	}
	if len(inconclusive) > 0 {
		return 2
	}
	return 0
}

func firstLine(s string) string {
	if i := strings.IndexByte(s, '\n'); i >= 0 {
		return s[:i]
	}
	return s
}

func tail(s string, n int) string {
	if len(s) > n {
		return s[len(s)-n:]
	}
	return s
}

func writeEvidence(prop, tierName string, tier int, seed int64, solver string, l *Loaded, hs []*Harness, validated, violations, known int, inconclusive []string, wall, replayTime time.Duration, sampleViol []map[string]interface{}) {
	paths, pruned, queries, sat, unsat := 0, 0, 0, 0, 0
	var instrs int64
	var st time.Duration
	funcs := map[string]bool{}
	perH := []map[string]interface{}{}
	samples := []interface{}{}
	assertIDs := 0
	for _, h := range hs {
		s := h.Stats
		paths += s.Paths
		pruned += s.Pruned
		queries += s.Queries
		sat += s.Sat
		unsat += s.Unsat
		instrs += s.Instrs
		st += s.SolverTime
		for f := range s.Funcs {
			funcs[f] = true
		}
		assertIDs += len(s.Asserts)
		perH = append(perH, map[string]interface{}{"harness": s.Name, "paths": s.Paths, "pruned_infeasible": s.Pruned, "ssa_instructions": s.Instrs,
			"queries": s.Queries, "sat": s.Sat, "unsat": s.Unsat, "solver_time_s": s.SolverTime.Seconds(), "max_decision_depth": s.MaxDepth,
			"assertions_reached_paths": s.Asserts, "incomplete": s.Incomplete, "errors": s.Errors, "engine_bounds_hit": keysOf(s.Notes)})
		for i, wt := range s.Witnesses {
			if i >= 2 {
				break
			}
			samples = append(samples, map[string]interface{}{"harness": s.Name, "kind": "path-witness (solver model of one explored path, replayed natively)", "choices": wt.Choices, "inputs": wt.Values, "assertions_reached": wt.Reached, "trace_len": len(wt.Traces)})
		}
	}
	for _, v := range sampleViol {
		samples = append(samples, v)
	}
	if len(samples) == 0 {
		samples = append(samples, map[string]interface{}{"note": "no path completed"})
	}
	var fl []string
	for f := range funcs {
		fl = append(fl, f)
	}
	sort.Strings(fl)
	if paths < 1 {
		paths = 0
	}
	ev := map[string]interface{}{
		"property_id": prop,
		"tier":        tierName,
		"seed":        seed,
		"level":       "model_checking",
		"wall_s":      wall.Seconds(),
		"violations":  violations,
		"coverage": map[string]interface{}{
			"states":                        paths,
			"transitions":                   instrs,
			"traces_validated_against_impl": validated,
			"samples":                       samples,
			"exhaustive":                    false,
			"explanation":                   "bounded symbolic execution of the go/ssa form of the real code (rebuilt from /repo on this run); states = symbolic paths explored to completion, each covering every value of its symbolic inputs; transitions = SSA instructions executed symbolically; every assertion and every implicit Go run-time check on every path was decided by the SMT solver (unsat = holds for all inputs on that path)",
			"technique":                     "SSA symbolic execution + SMT (" + solver + ")",
			"solver":                        solver,
			"queries_discharged":            queries,
			"queries_sat":                   sat,
			"queries_unsat":                 unsat,
			"solver_time_s":                 st.Seconds(),
			"native_replay_time_s":          replayTime.Seconds(),
			"paths_pruned_infeasible":       pruned,
			"known_findings_hit":            known,
			"functions_encoded":             fl,
			"harnesses":                     perH,
			"dropped_harness_files":         l.dropped,
			"inconclusive":                  inconclusive,
			"load_time_s":                   l.loadTime.Seconds(),
			"distinct_assertion_ids":        assertIDs,
		},
		"assumptions": []string{
			"bounds are those coded in the harness sources under /verif/harness (sizes, sequence depths, choice sets); anything beyond them is outside the claim",
			"int is 64 bit; integer arithmetic is modelled bit-precisely with wrap-around",
			"intrinsics: bytes.IndexByte/Equal/EqualFold (ASCII folding), math/rand (arbitrary values), sync.Pool and the generic gobwas/pool.Pool (Get returns the item most recently Put, else New()/nil), gobwas/pool pbytes/pbufio (fresh buffers with arbitrary content, release tracking), fmt.Errorf/Sprintf (concrete rendering), crypto/sha1 on concrete data",
			"transports, destinations and callbacks are harness stubs constrained only by the io.Reader/io.Writer contracts",
			"crypto/tls, net/http parsers, the Go scheduler and GC are not modelled; compress/flate is executed from its own SSA form where its control flow does not depend on symbolic data (stored mode, inputs of <= 3 arbitrary bytes), its compressing levels are outside reach",
		},
	}
	os.MkdirAll(filepath.Join(outDir(), "evidence"), 0755)
	b, _ := json.MarshalIndent(ev, "", " ")
	os.WriteFile(filepath.Join(outDir(), "evidence", prop+".json"), b, 0644)
}

func keysOf(m map[string]bool) []string {
	var r []string
	for k := range m {
		r = append(r, k)
	}
	sort.Strings(r)
	return r
}

func dropNativeOnly(ids []string) []string {
	var r []string
	for _, id := range ids {
		if !strings.Contains(id, ".concurrent_") {
			r = append(r, id)
		}
	}
	return r
}

// replayMain re-runs one stored counterexample natively against the current /repo tree.
// exit 1 = reproduced (prints the VIOLATION line), 0 = not reproduced, 2 = could not run.
func replayMain(args []string) int {
	if len(args) < 1 {
		fatal("usage: symgo replay <replay.json>")
	}
	b, err := os.ReadFile(args[0])
	if err != nil {
		fatal("%v", err)
	}
	in := &ReplayIn{}
	if err := json.Unmarshal(b, in); err != nil {
		fatal("%v", err)
	}
	l := load()
	short := in.Harness[:strings.Index(in.Harness, ".")]
	res, log, err := nativeReplay(l, short, map[string]*ReplayIn{"replay": in}, in.Property == "C19")
	out := res["replay"]
	if out == nil {
		if in.Expect != nil && (in.Expect.Kind == "crash" || in.Expect.Kind == "recursion") && (strings.Contains(log, "stack overflow") || strings.Contains(log, "goroutine stack exceeds")) {
			fmt.Printf("native run: the process died with a fatal stack overflow\nVIOLATION property=%s replay=%s\n", in.Property, args[0])
			return 1
		}
		if in.Expect != nil && in.Expect.Kind == "crash" && (strings.Contains(log, "\npanic: ") || strings.Contains(log, "\nfatal error: ")) {
			fmt.Printf("native run: the process died (panic / fatal error)\nVIOLATION property=%s replay=%s\n", in.Property, args[0])
			return 1
		}
		fmt.Printf("could not run the replay: %v\n%s\n", err, tail(log, 2000))
		return 2
	}
	fmt.Printf("native run: end=%s failed=%v msg=%s\n", out.End, out.Failed, firstLine(out.Msg))
	repro := false
	if in.Expect != nil {
		switch {
		case in.Expect.Kind == "assert":
			for _, f := range out.Failed {
				if f == in.Expect.Assert {
					repro = true
				}
			}
		case strings.HasPrefix(in.Expect.Kind, "panic"):
			repro = out.End == "panic"
		case in.Expect.Kind == "global-write" || in.Expect.Kind == "pool":
			repro = strings.Contains(log, "DATA RACE") || len(out.Failed) > 0
			if !repro && in.Twice {
				for _, f := range out.Failed {
					repro = repro || f == "shared-state.second_run_differs"
				}
			}
		}
	}
	if repro {
		fmt.Printf("VIOLATION property=%s replay=%s\n", in.Property, args[0])
		return 1
	}
	fmt.Println("not reproduced on the current tree")
	return 0
}
