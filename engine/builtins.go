package main

import (
	"fmt"
	"go/types"

	"golang.org/x/tools/go/ssa"
)

var byteSizeClasses = []int{8, 16, 24, 32, 48, 64, 80, 96, 112, 128, 144, 160, 176, 192, 208, 224, 240, 256, 288, 320, 352, 384, 416, 448, 480, 512, 576, 640, 704, 768, 896, 1024, 1152, 1280, 1408, 1536, 1792, 2048, 2304, 2688, 3072, 3200, 3456, 4096, 4864, 5120, 5376, 6144, 6528, 6784, 6912, 8192, 9472, 9728, 10240, 10880, 12288, 13568, 14336, 16384, 18432, 19072, 20480, 21760, 24576, 27264, 28672, 32768}

func roundupsize(n int) int {
	for _, c := range byteSizeClasses {
		if n <= c {
			return c
		}
	}
	// page rounding
	return (n + 8191) &^ 8191
}

// growCap mimics runtime.growslice's capacity choice for byte-sized elements.
func growCap(oldCap, needed, stride int) int {
	newcap := oldCap
	doublecap := newcap + newcap
	if needed > doublecap {
		newcap = needed
	} else {
		const threshold = 256
		if oldCap < threshold {
			newcap = doublecap
		} else {
			for newcap < needed {
				newcap += (newcap + 3*threshold) >> 2
			}
		}
	}
	if stride == 1 {
		return roundupsize(newcap)
	}
	return newcap
}

func (w *Worker) builtin(b *ssa.Builtin, args []Val, c *ssa.CallCommon) Val {
	ts := w.ts
	switch b.Name() {
	case "len":
		switch x := args[0].(type) {
		case Slice:
			return ts.Const(64, uint64(x.Len))
		case Str:
			return ts.Const(64, uint64(x.Len))
		case *MapVal:
			if x == nil {
				return ts.Const(64, 0)
			}
			return ts.Const(64, uint64(len(x.Vals)))
		case Tuple:
			return ts.Const(64, uint64(len(x)))
		case Ptr: // *array
			arr := c.Args[0].Type().Underlying().(*types.Pointer).Elem().Underlying().(*types.Array)
			return ts.Const(64, uint64(arr.Len()))
		case *ChanVal:
			return ts.Const(64, uint64(len(x.buf)))
		}
	case "cap":
		switch x := args[0].(type) {
		case Slice:
			return ts.Const(64, uint64(x.Cap))
		case Tuple:
			return ts.Const(64, uint64(len(x)))
		case Ptr:
			arr := c.Args[0].Type().Underlying().(*types.Pointer).Elem().Underlying().(*types.Array)
			return ts.Const(64, uint64(arr.Len()))
		}
	case "copy":
		dst := args[0].(Slice)
		var sobj, soff, slen int
		switch s := args[1].(type) {
		case Slice:
			sobj, soff, slen = s.Obj, s.Off, s.Len
		case Str:
			sobj, soff, slen = s.Obj, s.Off, s.Len
		}
		stride := dst.Stride
		if stride == 0 {
			stride = 1
		}
		n := dst.Len
		if slen < n {
			n = slen
		}
		w.copyLeaves(dst.Obj, dst.Off, sobj, soff, n*stride, c.Args[0].Type())
		return ts.Const(64, uint64(n))
	case "append":
		s := args[0].(Slice)
		st := c.Args[0].Type().Underlying().(*types.Slice)
		stride := w.leafCount(st.Elem())
		var sobj, soff, slen int
		switch a := args[1].(type) {
		case Slice:
			sobj, soff, slen = a.Obj, a.Off, a.Len
		case Str:
			sobj, soff, slen = a.Obj, a.Off, a.Len
		}
		if slen == 0 {
			return s
		}
		nl := s.Len + slen
		if nl <= s.Cap && s.Obj != 0 {
			w.copyLeaves(s.Obj, s.Off+s.Len*stride, sobj, soff, slen*stride, c.Args[0].Type())
			return Slice{s.Obj, s.Off, nl, s.Cap, stride}
		}
		nc := growCap(s.Cap, nl, stride)
		o := w.allocElems(st.Elem(), nc)
		if s.Len > 0 {
			w.copyLeaves(o.ID, 0, s.Obj, s.Off, s.Len*stride, c.Args[0].Type())
		}
		w.copyLeaves(o.ID, s.Len*stride, sobj, soff, slen*stride, c.Args[0].Type())
		return Slice{o.ID, 0, nl, nc, stride}
	case "recover":
		return Iface{}
	case "print", "println":
		return nil
	case "min", "max":
		_, signed, _ := intType(c.Args[0].Type())
		r := args[0].(*Term)
		for _, a := range args[1:] {
			x := a.(*Term)
			var lt *Term
			if signed {
				lt = ts.Cmp(OSlt, x, r)
			} else {
				lt = ts.Cmp(OUlt, x, r)
			}
			if b.Name() == "max" {
				lt = ts.Not(ts.Or(lt, ts.Eq(x, r)))
			}
			r = ts.Ite(lt, x, r)
		}
		return r
	case "delete":
		m := args[0].(*MapVal)
		if m != nil {
			k := w.mapKey(args[1])
			delete(m.Vals, k)
			delete(m.KeyV, k)
		}
		return nil
	case "close":
		w.chanClose(args[0])
		return nil
	case "SliceData":
		sl := args[0].(Slice)
		if sl.Obj == 0 {
			return Ptr{}
		}
		return Ptr{sl.Obj, sl.Off}
	case "StringData":
		st := args[0].(Str)
		return Ptr{st.Obj, st.Off}
	case "String":
		p := args[0].(Ptr)
		n := int(w.concretize(args[1].(*Term), "unsafe.String length"))
		if n == 0 {
			return Str{}
		}
		return Str{p.Obj, p.Off, n}
	case "Slice":
		p := args[0].(Ptr)
		n := int(w.concretize(args[1].(*Term), "unsafe.Slice length"))
		if p.Obj == 0 {
			return Slice{}
		}
		return Slice{p.Obj, p.Off, n, n, 1}
	case "ssa:wrapnilchk":
		if p, ok := args[0].(Ptr); ok && p.IsNil() {
			w.goPanic("nil-deref", "value method called using nil pointer")
		}
		return args[0]
	}
	panic(engineError{fmt.Sprintf("builtin %s on %T", b.Name(), args[0])})
}

// copyLeaves copies n leaves handling overlap; materialises garbage on read.
func (w *Worker) copyLeaves(dobj, doff, sobj, soff, n int, sliceT types.Type) {
	if n == 0 {
		return
	}
	src := w.obj(sobj)
	w.touch(src)
	tmp := make([]Val, n)
	var elemT types.Type = types.Typ[types.Uint8]
	if st, ok := sliceT.Underlying().(*types.Slice); ok && w.leafCount(st.Elem()) == 1 {
		elemT = st.Elem()
	}
	for i := 0; i < n; i++ {
		v := src.Leaves[soff+i]
		if v == nil {
			if src.Garbage {
				v = w.materialize(src, soff+i, elemT)
				src = w.obj(sobj)
			}
		}
		tmp[i] = v
	}
	dst := w.mut(dobj)
	w.touch(dst)
	copy(dst.Leaves[doff:doff+n], tmp)
}
