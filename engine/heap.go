package main

import (
	"fmt"
	"strings"
	"go/constant"
	"go/types"

	"golang.org/x/tools/go/ssa"
)

const pathObjBase = 1 << 30

func (w *Worker) newObj(n int) *Obj {
	o := &Obj{Leaves: make([]Val, n)}
	if w.initDepth > 0 {
		w.nextBase++
		o.ID = w.nextBase
		o.Base = true
		w.baseObjs[o.ID] = o
		o.Tag = w.initOwnerTag()
	} else {
		w.nextObj++
		o.ID = pathObjBase + w.nextObj
		w.objs[o.ID] = o
	}
	return o
}

// initOwnerTag: memory allocated while a gobwas/* package initialises (compiled frames, tables,
// default values, ...) is shared by every connection of the process, exactly like the
// package-level variables that point to it: obligation O1 covers it too.  Allocations made by
// the harness's own package-level initialisers (zz_verif_ files) are not library state.
func (w *Worker) initOwnerTag() string {
	if len(w.stack) == 0 {
		return ""
	}
	root := w.stack[0]
	if root.fn.Pkg == nil || root.fn.Name() != "init" || !strings.HasPrefix(root.fn.Pkg.Pkg.Path(), "github.com/gobwas/") {
		return ""
	}
	if root.cur != nil && root.cur.Pos().IsValid() && strings.Contains(w.prog.Fset.Position(root.cur.Pos()).Filename, "zz_verif_") {
		return ""
	}
	return root.fn.Pkg.Pkg.Path() + " init-time object (allocated in " + w.curFn() + ")"
}

func (w *Worker) obj(id int) *Obj {
	if id == 0 {
		w.goPanic("nil-deref", "nil pointer dereference")
	}
	if o, ok := w.objs[id]; ok {
		return o
	}
	if o, ok := w.baseObjs[id]; ok {
		return o
	}
	panic(engineError{fmt.Sprintf("dangling object id %d", id)})
}

// mut returns a writable version of the object (copy-on-write for base objects).
func (w *Worker) mut(id int) *Obj {
	if id == 0 {
		w.goPanic("nil-deref", "nil pointer dereference")
	}
	if o, ok := w.objs[id]; ok {
		if o.Frozen {
			w.noteSharedWrite(o)
		}
		return o
	}
	o, ok := w.baseObjs[id]
	if !ok {
		panic(engineError{fmt.Sprintf("dangling object id %d", id)})
	}
	if w.initDepth > 0 {
		return o
	}
	c := *o
	c.Leaves = append([]Val(nil), o.Leaves...)
	w.objs[id] = &c
	w.noteGlobalWrite(o.Tag)
	return &c
}

func (w *Worker) touch(o *Obj) {
	if o.Pooled < 2 || len(w.stack) == 0 { // 2 = released, 3 = released and since recycled
		return
	}
	// an access by library code, or by a harness stub that library code called (the library
	// handed a released buffer to the outside); the harness's own top-level inspection of
	// results after Put is what C17 is about and is judged by its assertions instead
	for i := len(w.stack) - 1; i >= 0; i-- {
		if !w.isHarnessFn(w.stack[i].fn) {
			w.poolViolation("access to pooled buffer after Put (obj " + o.Tag + ") in " + w.curFn())
			return
		}
	}
}

// ---- type layout ----

func (w *Worker) leafCount(t types.Type) int {
	switch u := t.Underlying().(type) {
	case *types.Struct:
		n := 0
		for i := 0; i < u.NumFields(); i++ {
			n += w.leafCount(u.Field(i).Type())
		}
		return n
	case *types.Array:
		return int(u.Len()) * w.leafCount(u.Elem())
	}
	return 1
}

func (w *Worker) fieldOffset(st *types.Struct, field int) int {
	n := 0
	for i := 0; i < field; i++ {
		n += w.leafCount(st.Field(i).Type())
	}
	return n
}

func basicWidth(b *types.Basic) (int, bool) {
	switch b.Kind() {
	case types.Int8:
		return 8, true
	case types.Uint8:
		return 8, false
	case types.Int16:
		return 16, true
	case types.Uint16:
		return 16, false
	case types.Int32:
		return 32, true
	case types.Uint32:
		return 32, false
	case types.Int64, types.Int, types.UntypedInt, types.UntypedRune:
		return 64, true
	case types.Uint64, types.Uint, types.Uintptr:
		return 64, false
	}
	return 0, false
}

// intType reports width/signedness if t is an integer type.
func intType(t types.Type) (int, bool, bool) {
	b, ok := t.Underlying().(*types.Basic)
	if !ok {
		return 0, false, false
	}
	wd, s := basicWidth(b)
	if wd == 0 {
		return 0, false, false
	}
	return wd, s, true
}

func (w *Worker) zero(t types.Type) Val {
	switch u := t.Underlying().(type) {
	case *types.Basic:
		if wd, _ := basicWidth(u); wd > 0 {
			return w.ts.Const(wd, 0)
		}
		switch {
		case u.Info()&types.IsBoolean != 0:
			return w.ts.False
		case u.Info()&types.IsString != 0:
			return Str{}
		case u.Kind() == types.UnsafePointer:
			return Ptr{}
		case u.Kind() == types.UntypedNil:
			return Ptr{}
		}
		return Opaque{"zero:" + u.Name()}
	case *types.Pointer:
		return Ptr{}
	case *types.Slice:
		return Slice{}
	case *types.Interface:
		return Iface{}
	case *types.Signature:
		return (*Closure)(nil)
	case *types.Map:
		return (*MapVal)(nil)
	case *types.Chan:
		return (*ChanVal)(nil)
	case *types.Struct:
		tp := make(Tuple, u.NumFields())
		for i := range tp {
			tp[i] = w.zero(u.Field(i).Type())
		}
		return tp
	case *types.Array:
		n := int(u.Len())
		tp := make(Tuple, n)
		z := w.zero(u.Elem())
		for i := range tp {
			tp[i] = z
		}
		return tp
	case *types.Tuple:
		tp := make(Tuple, u.Len())
		for i := range tp {
			tp[i] = w.zero(u.At(i).Type())
		}
		return tp
	}
	panic(engineError{"zero: unsupported type " + t.String()})
}

func (w *Worker) flatten(v Val, t types.Type, out []Val) []Val {
	switch u := t.Underlying().(type) {
	case *types.Struct:
		tp, ok := v.(Tuple)
		if !ok {
			panic(engineError{fmt.Sprintf("flatten struct %s: got %T", t, v)})
		}
		for i := 0; i < u.NumFields(); i++ {
			out = w.flatten(tp[i], u.Field(i).Type(), out)
		}
		return out
	case *types.Array:
		tp, ok := v.(Tuple)
		if !ok {
			panic(engineError{fmt.Sprintf("flatten array %s: got %T", t, v)})
		}
		for i := range tp {
			out = w.flatten(tp[i], u.Elem(), out)
		}
		return out
	}
	return append(out, v)
}

func (w *Worker) unflatten(o *Obj, off int, t types.Type) (Val, int) {
	switch u := t.Underlying().(type) {
	case *types.Struct:
		tp := make(Tuple, u.NumFields())
		for i := range tp {
			tp[i], off = w.unflatten(o, off, u.Field(i).Type())
		}
		return tp, off
	case *types.Array:
		n := int(u.Len())
		tp := make(Tuple, n)
		for i := range tp {
			tp[i], off = w.unflatten(o, off, u.Elem())
		}
		return tp, off
	}
	if off < 0 || off >= len(o.Leaves) {
		panic(engineError{fmt.Sprintf("load out of object bounds off=%d n=%d type %s in %s", off, len(o.Leaves), t, w.curFn())})
	}
	v := o.Leaves[off]
	if v == nil {
		v = w.materialize(o, off, t)
	}
	return v, off + 1
}

// materialize gives an uninitialised (garbage or zero) leaf a value.
func (w *Worker) materialize(o *Obj, off int, t types.Type) Val {
	if o.Garbage {
		wd, _, ok := intType(t)
		if !ok {
			panic(engineError{"garbage leaf of non-integer type " + t.String()})
		}
		w.garbCnt++
		v := w.ts.Var(fmt.Sprintf("garbage#%d", w.garbCnt), wd)
		w.garbageVars[v.Name] = true
		mo := w.mut(o.ID)
		mo.Leaves[off] = v
		return v
	}
	return w.zero(t)
}

func (w *Worker) allocType(t types.Type) *Obj {
	n := w.leafCount(t)
	o := w.newObj(n)
	o.Leaves = w.flatten(w.zero(t), t, o.Leaves[:0])
	return o
}

// allocElems allocates an array object of n elements of type elem.
func (w *Worker) allocElems(elem types.Type, n int) *Obj {
	st := w.leafCount(elem)
	o := w.newObj(n * st)
	if n == 0 {
		return o
	}
	if st == 1 {
		z := w.zero(elem)
		for i := range o.Leaves {
			o.Leaves[i] = z
		}
		if b, ok := elem.Underlying().(*types.Basic); ok && b.Kind() == types.Uint8 {
			o.ByteObj = true
		}
		return o
	}
	zl := w.flatten(w.zero(elem), elem, nil)
	for i := 0; i < n; i++ {
		copy(o.Leaves[i*st:], zl)
	}
	return o
}

func (w *Worker) load(p Val, t types.Type) Val {
	switch x := p.(type) {
	case Ptr:
		o := w.obj(x.Obj)
		w.touch(o)
		v, _ := w.unflatten(o, x.Off, t)
		return v
	case SymPtr:
		return w.loadSym(x, t)
	}
	panic(engineError{fmt.Sprintf("load through %T in %s", p, w.curFn())})
}

func (w *Worker) store(p Val, v Val, t types.Type) {
	switch x := p.(type) {
	case Ptr:
		o := w.mut(x.Obj)
		w.touch(o)
		n := w.leafCount(t)
		if x.Off < 0 || x.Off+n > len(o.Leaves) {
			panic(engineError{fmt.Sprintf("store out of object bounds off=%d n=%d len=%d in %s", x.Off, n, len(o.Leaves), w.curFn())})
		}
		w.flatten(v, t, o.Leaves[x.Off:x.Off])
		return
	case SymPtr:
		w.storeSym(x, v, t)
		return
	}
	panic(engineError{fmt.Sprintf("store through %T in %s", p, w.curFn())})
}

func (w *Worker) leafAt(o *Obj, off int, t types.Type) Val {
	v := o.Leaves[off]
	if v == nil {
		v = w.materialize(o, off, t)
	}
	return v
}

func (w *Worker) loadSym(p SymPtr, t types.Type) Val {
	o := w.obj(p.Obj)
	w.touch(o)
	wd, _, ok := intType(t)
	if !ok {
		panic(engineError{"symbolic-index load of non-integer type " + t.String()})
	}
	// all-constant region → table
	allConst := true
	for i := 0; i < p.N; i++ {
		l := w.leafAt(o, p.Base+i, t)
		if tm, ok := l.(*Term); !ok || !tm.IsConst() {
			allConst = false
			break
		}
	}
	if allConst && p.N > 8 {
		vals := make([]uint64, p.N)
		for i := range vals {
			vals[i] = o.Leaves[p.Base+i].(*Term).C
		}
		id := w.ts.NewTable(wd, vals)
		return w.ts.Select(id, p.Idx)
	}
	if p.N > 96 {
		// concretise the index
		i := w.concretize(p.Idx, "symbolic index")
		return w.leafAt(o, p.Base+int(i), t)
	}
	res := w.leafAt(o, p.Base+p.N-1, t).(*Term)
	for i := p.N - 2; i >= 0; i-- {
		res = w.ts.Ite(w.ts.Eq(p.Idx, w.ts.Const(64, uint64(i))), w.leafAt(o, p.Base+i, t).(*Term), res)
	}
	return res
}

func (w *Worker) storeSym(p SymPtr, v Val, t types.Type) {
	if p.N > 96 {
		i := w.concretize(p.Idx, "symbolic index")
		w.store(Ptr{p.Obj, p.Base + int(i)}, v, t)
		return
	}
	o := w.mut(p.Obj)
	w.touch(o)
	nv := v.(*Term)
	for i := 0; i < p.N; i++ {
		old := w.leafAt(o, p.Base+i, t).(*Term)
		o.Leaves[p.Base+i] = w.ts.Ite(w.ts.Eq(p.Idx, w.ts.Const(64, uint64(i))), nv, old)
	}
}

// ---- strings ----

func (w *Worker) strConst(s string) Str {
	if len(s) == 0 {
		return Str{}
	}
	if id, ok := w.strConsts[s]; ok {
		return Str{id, 0, len(s)}
	}
	w.initDepth++
	o := w.newObj(len(s))
	w.initDepth--
	for i := 0; i < len(s); i++ {
		o.Leaves[i] = w.ts.Const(8, uint64(s[i]))
	}
	o.ByteObj = true
	w.strConsts[s] = o.ID
	return Str{o.ID, 0, len(s)}
}

func (w *Worker) byteAt(obj, off int) *Term {
	o := w.obj(obj)
	w.touch(o)
	v := o.Leaves[off]
	if v == nil {
		v = w.materialize(o, off, types.Typ[types.Uint8])
	}
	return v.(*Term)
}

// concreteStr returns the Go string if all bytes are concrete.
func (w *Worker) concreteStr(s Str) (string, bool) {
	b := make([]byte, s.Len)
	for i := 0; i < s.Len; i++ {
		t := w.byteAt(s.Obj, s.Off+i)
		if !t.IsConst() {
			return "", false
		}
		b[i] = byte(t.C)
	}
	return string(b), true
}

func (w *Worker) concreteBytes(s Slice) ([]byte, bool) {
	return w.concreteStrBytes(Str{s.Obj, s.Off, s.Len})
}

func (w *Worker) concreteStrBytes(s Str) ([]byte, bool) {
	str, ok := w.concreteStr(s)
	return []byte(str), ok
}

func (w *Worker) mustStr(v Val) string {
	s, ok := w.concreteStr(v.(Str))
	if !ok {
		panic(engineError{"expected concrete string in " + w.curFn()})
	}
	return s
}

func (w *Worker) newBytes(b []byte) Slice {
	o := w.newObj(len(b))
	o.ByteObj = true
	for i, c := range b {
		o.Leaves[i] = w.ts.Const(8, uint64(c))
	}
	return Slice{o.ID, 0, len(b), len(b), 1}
}

func (w *Worker) strEq(a, b Str) *Term {
	if a.Len != b.Len {
		return w.ts.False
	}
	if a.Len == 0 || (a.Obj == b.Obj && a.Off == b.Off) {
		return w.ts.True
	}
	r := w.ts.True
	for i := 0; i < a.Len; i++ {
		r = w.ts.And(r, w.ts.Eq(w.byteAt(a.Obj, a.Off+i), w.byteAt(b.Obj, b.Off+i)))
		if r.isFalse() {
			return r
		}
	}
	return r
}

// ---- constants ----

func (w *Worker) constVal(c *ssa.Const) Val {
	t := c.Type()
	if c.Value == nil {
		return w.zero(t)
	}
	if b, ok := t.Underlying().(*types.Basic); ok {
		if wd, signed := basicWidth(b); wd > 0 {
			if signed {
				v, _ := constant.Int64Val(constant.ToInt(c.Value))
				return w.ts.Const(wd, uint64(v))
			}
			v, _ := constant.Uint64Val(constant.ToInt(c.Value))
			return w.ts.Const(wd, v)
		}
		switch {
		case b.Info()&types.IsBoolean != 0:
			return w.ts.Bool(constant.BoolVal(c.Value))
		case b.Info()&types.IsString != 0:
			return w.strConst(constant.StringVal(c.Value))
		}
		return Opaque{"const:" + c.Value.String()}
	}
	panic(engineError{"constVal: unsupported " + c.String()})
}

// isLibraryGlobal: package-level variables of the library under test and of its non-standard
// dependencies (sync.Pool internals and math/rand state are modelled, not executed).
func isLibraryGlobal(tag string) bool {
	return strings.HasPrefix(tag, "github.com/gobwas/")
}

// noteSharedWrite: obligation O1 extended to configuration shared by sessions (C19): an object
// that existed when the harness called vFreezeShared (a shared Dialer/Upgrader value, the
// closures in it and the cells they capture) is not written by library code afterwards, outside
// sync.Once.  Stores by the harness's own functions are the environment's business.
func (w *Worker) noteSharedWrite(o *Obj) {
	if w.inOnce > 0 || w.initDepth > 0 || len(w.stack) == 0 || w.isHarnessFn(w.stack[len(w.stack)-1].fn) {
		return
	}
	key := fmt.Sprintf("shared-write:%d", o.ID)
	if w.inPrefix() || w.reportedOnce[key] {
		return
	}
	w.reportedOnce[key] = true
	w.globalWrites = append(w.globalWrites, "shared object in "+w.curFn())
	w.ensureModel()
	w.reportViolation("shared-state", "global-write", w.libSite(), "store by "+w.curFn()+" into memory shared between sessions (it existed before vFreezeShared)", w.model)
}

// noteGlobalWrite: obligation O1 (C19) — package-level state is not written after initialisation.
func (w *Worker) noteGlobalWrite(tag string) {
	if tag == "" || w.globalWriteOK[tag] || w.inOnce > 0 || w.initDepth > 0 || !isLibraryGlobal(tag) {
		return
	}
	w.globalWrites = append(w.globalWrites, tag+" in "+w.curFn())
	key := "global-write:" + tag
	if !w.inPrefix() && !w.reportedOnce[key] {
		w.reportedOnce[key] = true
		w.ensureModel()
		w.reportViolation("shared-state", "global-write", w.libSite(), "store to package-level variable "+tag+" after initialisation", w.model)
	}
}
