package main

import (
	"encoding/json"
	"flag"
	"fmt"
	"os"
	"path/filepath"
	"regexp"
	"runtime"
	"runtime/debug"
	"runtime/pprof"
	"sort"
	"strings"
	"time"

	"golang.org/x/tools/go/packages"
	"golang.org/x/tools/go/ssa"
	"golang.org/x/tools/go/ssa/ssautil"
)

// repoDir is the tree under verification: /repo (VERIF_REPO overrides it only for evaluating
// seeded changes in a scratch worktree without disturbing /repo).
var repoDir = "/repo"
const modPath = "github.com/gobwas/ws"

var verifDir = "/verif"

var pkgDirs = map[string]string{"ws": "", "wsutil": "wsutil", "wsflate": "wsflate"}

type Loaded struct {
	prog      *ssa.Program
	pkgs      map[string]*ssa.Package
	overlay   map[string][]byte
	harnesses map[string][]string // pkg short name → harness function names
	dropped   []string
	loadTime  time.Duration
}

func rtSource(pkg string) []byte {
	b, err := os.ReadFile(filepath.Join(verifDir, "harness", "rt.go.tmpl"))
	if err != nil {
		fatal("read rt template: %v", err)
	}
	return []byte(strings.Replace(string(b), "package PKG", "package "+pkg, 1))
}

func fatal(f string, a ...interface{}) {
	fmt.Fprintf(os.Stderr, "symgo: "+f+"\n", a...)
	os.Exit(2)
}

// buildOverlay maps harness files into the repo packages (virtual files only).
func buildOverlay(only map[string]bool) (map[string][]byte, map[string][]string) {
	ov := map[string][]byte{}
	files := map[string][]string{}
	for pkg, dir := range pkgDirs {
		hd := filepath.Join(verifDir, "harness", pkg)
		ents, _ := os.ReadDir(hd)
		n := 0
		for _, e := range ents {
			if !strings.HasSuffix(e.Name(), ".go") {
				continue
			}
			src, err := os.ReadFile(filepath.Join(hd, e.Name()))
			if err != nil {
				fatal("%v", err)
			}
			virt := filepath.Join(repoDir, dir, "zz_verif_"+e.Name())
			if only != nil && !only[virt] {
				continue
			}
			ov[virt] = src
			files[pkg] = append(files[pkg], virt)
			n++
		}
		if n > 0 {
			ov[filepath.Join(repoDir, dir, "zz_verif_rt.go")] = rtSource(pkg)
		}
	}
	return ov, files
}

var harnessRe = regexp.MustCompile(`^C\d\d_`)

func load() *Loaded {
	st := time.Now()
	ov, files := buildOverlay(nil)
	var dropped []string
	var pkgs []*packages.Package
	for attempt := 0; attempt < 20; attempt++ {
		cfg := &packages.Config{Mode: packages.LoadAllSyntax, Dir: repoDir, Overlay: ov, BuildFlags: []string{"-tags=verif"},
			Env: append(os.Environ(), "GOFLAGS=-mod=mod", "GOPROXY=off", "GOSUMDB=off", "GOTOOLCHAIN=local")}
		var err error
		pkgs, err = packages.Load(cfg, ".", "./wsutil", "./wsflate")
		if err != nil {
			fatal("load: %v", err)
		}
		// drop harness files that do not type-check against the current tree
		bad := map[string]bool{}
		other := []string{}
		for _, p := range pkgs {
			for _, e := range p.Errors {
				pos := e.Pos
				if i := strings.Index(pos, ":"); i > 0 {
					pos = pos[:i]
				}
				if strings.Contains(pos, "zz_verif_") && !strings.HasSuffix(pos, "zz_verif_rt.go") {
					bad[pos] = true
				} else {
					other = append(other, e.Error())
				}
			}
		}
		if len(bad) == 0 {
			if len(other) > 0 {
				fatal("package errors: %s", strings.Join(other, "; "))
			}
			break
		}
		for f := range bad {
			fmt.Fprintf(os.Stderr, "symgo: dropping harness file %s (does not type-check against current tree)\n", f)
			for _, p := range pkgs {
				for _, e := range p.Errors {
					if strings.HasPrefix(e.Pos, f) {
						fmt.Fprintf(os.Stderr, "   %s\n", e.Error())
					}
				}
			}
			dropped = append(dropped, filepath.Base(f))
			delete(ov, f)
		}
		_ = files
	}
	prog, spkgs := ssautil.AllPackages(pkgs, ssa.InstantiateGenerics)
	prog.Build()
	l := &Loaded{prog: prog, pkgs: map[string]*ssa.Package{}, overlay: ov, harnesses: map[string][]string{}, dropped: dropped}
	for _, p := range prog.AllPackages() {
		l.pkgs[p.Pkg.Path()] = p
	}
	for i, p := range spkgs {
		if p == nil {
			continue
		}
		short := strings.TrimPrefix(strings.TrimPrefix(pkgs[i].PkgPath, modPath), "/")
		if short == "" {
			short = "ws"
		}
		for name, m := range p.Members {
			if fn, ok := m.(*ssa.Function); ok && harnessRe.MatchString(name) {
				_ = fn
				l.harnesses[short] = append(l.harnesses[short], name)
			}
		}
		sort.Strings(l.harnesses[short])
	}
	l.loadTime = time.Since(st)
	return l
}

func (l *Loaded) pkgOf(short string) *ssa.Package {
	if short == "ws" {
		return l.pkgs[modPath]
	}
	return l.pkgs[modPath+"/"+short]
}

type RunConfig struct {
	Pattern  *regexp.Regexp
	Tier     int
	Workers  int
	MaxPaths int
	Timeout  time.Duration
	Solver   string
	WitnessN int
	Verbose  bool
	Seed     int64
}

func runEngine(l *Loaded, rc RunConfig) []*Harness {
	e := &Engine{prog: l.prog, pkgs: l.pkgs, maxPaths: rc.MaxPaths, deadline: time.Now().Add(rc.Timeout),
		solver: rc.Solver, nworkers: rc.Workers, witnessN: rc.WitnessN, verbose: rc.Verbose, seed: rc.Seed}
	tierVal = rc.Tier
	for short, names := range l.harnesses {
		for _, n := range names {
			if rc.Pattern != nil && !rc.Pattern.MatchString(n) {
				continue
			}
			fn := l.pkgOf(short).Func(n)
			e.harnesses = append(e.harnesses, &Harness{Name: short + "." + n, Fn: fn, Stats: &HarnessStats{Name: short + "." + n,
				Asserts: map[string]int{}, AssertsSym: map[string]int{}, ViolCount: map[string]int{}, Funcs: map[string]bool{}, Covers: map[string]int{}, Notes: map[string]bool{}}})
		}
	}
	sort.Slice(e.harnesses, func(i, j int) bool { return e.harnesses[i].Name < e.harnesses[j].Name })
	e.runAll()
	return e.harnesses
}

var tierVal int

func main() {
	if len(os.Args) < 2 {
		fatal("usage: symgo run|check|selftest ...")
	}
	debug.SetGCPercent(400)
	if d := os.Getenv("VERIF_REPO"); d != "" {
		repoDir = d
	}
	if d := os.Getenv("VERIF_DIR"); d != "" {
		verifDir = d
	}
	switch os.Args[1] {
	case "run":
		fs := flag.NewFlagSet("run", flag.ExitOnError)
		pat := fs.String("harness", ".", "regexp of harness names")
		tier := fs.Int("tier", 0, "0 quick, 1 thorough")
		workers := fs.Int("workers", runtime.NumCPU(), "workers")
		maxp := fs.Int("maxpaths", 200000, "max paths per harness")
		to := fs.Duration("timeout", 10*time.Minute, "deadline")
		solver := fs.String("solver", "z3-new", "z3|z3-new|cvc5")
		verbose := fs.Bool("v", false, "verbose")
		prof := fs.String("cpuprofile", "", "write cpu profile")
		fs.Parse(os.Args[2:])
		if *prof != "" {
			f, _ := os.Create(*prof)
			pprof.StartCPUProfile(f)
			defer pprof.StopCPUProfile()
		}
		l := load()
		fmt.Fprintf(os.Stderr, "loaded in %v; harnesses: %v\n", l.loadTime, l.harnesses)
		hs := runEngine(l, RunConfig{Pattern: regexp.MustCompile(*pat), Tier: *tier, Workers: *workers, MaxPaths: *maxp, Timeout: *to, Solver: *solver, WitnessN: 4, Verbose: *verbose})
		for _, h := range hs {
			s := h.Stats
			fmt.Printf("%s: paths=%d pruned=%d instrs=%d queries=%d sat=%d unsat=%d solver=%v depth=%d incomplete=%v\n", s.Name, s.Paths, s.Pruned, s.Instrs, s.Queries, s.Sat, s.Unsat, s.SolverTime.Round(time.Millisecond), s.MaxDepth, s.Incomplete)
			for _, k := range sortedKeys(s.Asserts) {
				fmt.Printf("   assert %-40s reached on %d paths\n", k, s.Asserts[k])
			}
			for _, e := range s.Errors {
				fmt.Printf("   ERROR %s\n", e)
			}
			for _, v := range s.Violations {
				b, _ := json.Marshal(v.Values)
				fmt.Printf("   VIOL assert=%s kind=%s site=%s msg=%s choices=%v values=%s\n", v.Assert, v.Kind, shortFn(v.Site), v.Msg, v.Choices, b)
			}
			for _, g := range s.GlobalWrite {
				fmt.Printf("   GLOBAL-WRITE %s\n", g)
			}
		}
	case "check":
		os.Exit(checkMain(os.Args[2:]))
	case "replay":
		os.Exit(replayMain(os.Args[2:]))
	default:
		fatal("unknown command %s", os.Args[1])
	}
}
