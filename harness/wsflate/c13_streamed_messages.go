//go:build verif

package wsflate

import (
	"github.com/gobwas/ws"
	"github.com/gobwas/ws/wsutil"
)

// C13_streamed_messages: a producer that streams a message chunk by chunk -- Write, then an
// explicit FlushFragment after every chunk (also after the last one, also with nothing buffered),
// then Flush -- and goes on with the next message through the same writer, with or without the
// quick opcode reset in between.  However the message is cut, it ends with exactly one FIN frame,
// RSV1 sits on the first frame of each compressed message and nowhere else, and the frames after
// the first are continuations.
func C13_streamed_messages() {
	client := vChoose("side", 2) == 0
	st := ws.StateServerSide
	if client {
		st = ws.StateClientSide
	}
	comp := vBool("compressed")
	var ms MessageState
	ms.SetCompressed(comp)
	dst := &vRecW{}
	bufLen := 2 + vChoose("buflen", 2)
	op := ws.OpCode(1 + vChoose("op", 2))
	w := wsutil.NewWriterSize(dst, st|ws.StateExtended, op, bufLen)
	w.SetExtensions(&ms)
	total := 0
	nmsg := 2
	var bounds []int // number of frames on the wire after each message
	var wrote []bool // the producer called Write for this message (an empty Write counts, as documented)
	for m := 0; m < nmsg; m++ {
		chunks := vChoose("chunks", 3) // 0, 1 or 2 chunks, each followed by FlushFragment
		for c := 0; c < chunks; c++ {
			n := vChoose("n", 3) // 0..2 bytes: below the buffer size, so only FlushFragment cuts
			p := vBytes("p", n)
			for _, b := range p {
				vAssume(b < 0x80)
			}
			k, err := w.Write(p)
			vAssert(vAnd(err == nil, k == n), "stream.write_ok")
			total += n
			vAssert(w.FlushFragment() == nil, "stream.flushfragment_ok")
		}
		tail := vChoose("tail", 2) == 1
		if tail {
			w.Write([]byte{'t'})
		}
		wrote = append(wrote, chunks > 0 || tail)
		vAssert(w.Flush() == nil, "stream.flush_ok")
		fs, ok := vParse(dst.all)
		vAssert(ok, "stream.whole_frames")
		if !ok {
			return
		}
		bounds = append(bounds, len(fs))
		if m == 0 && vChoose("resetop", 2) == 1 {
			w.ResetOp(op)
		}
	}
	fs, _ := vParse(dst.all)
	start := 0
	for m, end := range bounds {
		vAssert((end > start) == wrote[m], "stream.message_reaches_the_wire_iff_written")
		for i := start; i < end; i++ {
			f := fs[i]
			first, last := i == start, i == end-1
			vAssert(f.fin == last, "stream.fin_on_last_frame_only")
			if first {
				vAssert(f.op == byte(op), "stream.first_frame_has_message_opcode")
			} else {
				vAssert(f.op == 0, "stream.later_frames_are_continuations")
			}
			vAssert((f.rsv&4 != 0) == vAnd(first, comp), "stream.rsv1_on_first_frame_of_each_message_only")
			vAssert(f.rsv&3 == 0, "stream.rsv23_zero")
		}
		start = end
	}
}
