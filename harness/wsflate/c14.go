//go:build verif

package wsflate

import (
	"github.com/gobwas/httphead"
)

// vBitsCfg: a symbolic window-bits value constrained to the tier's domain
// (quick: {0,8,11,15}; thorough: {0,8..15}; plus 1 = "offered without value" when allowed).
func vBitsCfg(name string, allowOne bool) WindowBits {
	b := WindowBits(vU8(name))
	dom := vOr(b == 0, vOr(b == 8, vOr(b == 11, b == 15)))
	if vTier() > 0 {
		dom = vOr(b == 0, vAnd(b >= 8, b <= 15))
	}
	if allowOne {
		dom = vOr(dom, b == 1)
	}
	vAssume(dom)
	return b
}

func vParams(prefix string, allowOne bool) Parameters {
	return Parameters{
		ServerNoContextTakeover: vBool(prefix + ".snct"),
		ClientNoContextTakeover: vBool(prefix + ".cnct"),
		ServerMaxWindowBits:     vBitsCfg(prefix+".sbits", false),
		ClientMaxWindowBits:     vBitsCfg(prefix+".cbits", allowOne),
	}
}

// vLegalAnswer: RFC 7692 §7.1.1-7.1.2 legality of response `ans` to offer `off`.
func vLegalAnswer(off, ans Parameters) bool {
	ok := vImplies(off.ServerMaxWindowBits != 0, vAnd(ans.ServerMaxWindowBits != 0, ans.ServerMaxWindowBits <= off.ServerMaxWindowBits))
	ok = vAnd(ok, vImplies(ans.ClientMaxWindowBits != 0, vAnd(off.ClientMaxWindowBits != 0, ans.ClientMaxWindowBits != 1)))
	ok = vAnd(ok, vImplies(vAnd(ans.ClientMaxWindowBits != 0, off.ClientMaxWindowBits > 1), ans.ClientMaxWindowBits <= off.ClientMaxWindowBits))
	ok = vAnd(ok, vImplies(off.ServerNoContextTakeover, ans.ServerNoContextTakeover))
	for _, b := range []WindowBits{ans.ServerMaxWindowBits, ans.ClientMaxWindowBits} {
		ok = vAnd(ok, vImplies(b != 0, vAnd(b >= 8, b <= 15)))
	}
	return ok
}

// C14_grid: every server configuration x every single offer: an accepted offer gets a legal
// answer; encoding and parsing are mutual inverses.
func C14_grid() {
	cfg := vParams("cfg", false)
	off := vParams("off", true)
	opt := off.Option()
	var back Parameters
	vAssert(back.Parse(opt) == nil, "grid.offer_parses")
	vAssert(back == off, "grid.parse_inverts_option")
	e := Extension{Parameters: cfg}
	accept, err := e.Negotiate(opt)
	vAssert(err == nil, "grid.wellformed_offer_no_error")
	got, accepted := e.Accepted()
	vAssert(accepted == (len(accept.Name) != 0), "grid.accepted_flag_matches_answer")
	if len(accept.Name) == 0 {
		return
	}
	vAssert(string(accept.Name) == "permessage-deflate", "grid.answer_name")
	vAssert(got == off, "grid.accepted_reports_offer")
	var ans Parameters
	vAssert(ans.Parse(accept) == nil, "grid.answer_parses")
	vAssert(vLegalAnswer(off, ans), "grid.answer_legal")
	// a second negotiation on the same extension accepts nothing more
	again, err := e.Negotiate(opt)
	vAssert(vAnd(err == nil, len(again.Name) == 0), "grid.at_most_one_accepted")
	e.Reset()
	vAssert(e == Extension{Parameters: cfg}, "grid.reset_as_new")
}

// C14_lists: at most one offer of a list is accepted and it is the first acceptable one.
func C14_lists() {
	cfg := vParams("cfg", false)
	n := 2 + vTier()
	e := Extension{Parameters: cfg}
	firstOK := -1
	acceptedAt := -1
	for i := 0; i < n; i++ {
		off := Parameters{
			ServerNoContextTakeover: vChoose("off.snct", 2) == 1,
			ServerMaxWindowBits:     []WindowBits{0, 9, 15}[vChoose("off.sbits", 3)],
			ClientMaxWindowBits:     []WindowBits{0, 1, 12}[vChoose("off.cbits", 3)],
		}
		single := Extension{Parameters: cfg}
		a1, _ := single.Negotiate(off.Option())
		if len(a1.Name) != 0 && firstOK < 0 {
			firstOK = i
		}
		a, err := e.Negotiate(off.Option())
		vAssert(err == nil, "lists.no_error")
		if len(a.Name) != 0 {
			vAssert(acceptedAt < 0, "lists.at_most_one")
			acceptedAt = i
		}
	}
	vAssert(acceptedAt == firstOK, "lists.first_acceptable_wins")
	// other extensions are never answered
	other := httphead.Option{Name: []byte("x-other")}
	fresh := Extension{Parameters: cfg}
	a, err := fresh.Negotiate(other)
	vAssert(vAnd(err == nil, len(a.Name) == 0), "lists.foreign_extension_ignored")
}

// C14_malformed: offers with unknown, duplicated or ill-valued parameters are errors.
func C14_malformed() {
	keys := []string{"server_no_context_takeover", "client_no_context_takeover", "server_max_window_bits", "client_max_window_bits", "x_unknown"}
	np := 1 + vChoose("np", 2+vTier())
	opt := httphead.Option{Name: []byte("permessage-deflate")}
	seen := [5]int{}
	mustErr, mayEither := false, false
	for i := 0; i < np; i++ {
		k := vChoose("key", len(keys))
		vl := vChoose("vlen", 3)
		val := vBytes("val", vl)
		if vl == 0 {
			val = nil
		}
		opt.Parameters.Set([]byte(keys[k]), val)
		seen[k]++
		if seen[k] > 1 || k == 4 {
			mustErr = true
		}
		switch k {
		case 0, 1:
			if vl != 0 {
				mustErr = true
			}
		case 2, 3:
			if vl == 0 {
				if k == 2 {
					mustErr = true
				}
				continue
			}
			digits := true
			for _, c := range val {
				digits = vAnd(digits, vIn(c, '0', '9'))
			}
			var num uint64
			for _, c := range val {
				num = num*10 + uint64(c-'0')
			}
			inRange := vAnd(num >= 8, num <= 15)
			leadingZero := vAnd(vl == 2, val[0] == '0')
			if vConcrete(vIte(vAnd(digits, vAnd(inRange, !leadingZero)), 1, 0)) == 1 {
				// plainly valid value
			} else if vConcrete(vIte(vAnd(digits, vAnd(inRange, leadingZero)), 1, 0)) == 1 {
				mayEither = true // leading zeros: left open
			} else {
				mustErr = true
			}
		}
	}
	var p Parameters
	err := p.Parse(opt)
	if mustErr {
		vAssert(err != nil, "malformed.rejected")
	} else if !mayEither {
		vAssert(err == nil, "malformed.wellformed_accepted")
	}
	// the negotiator reports the same error and accepts nothing
	e := Extension{}
	a, nerr := e.Negotiate(opt)
	vAssert((nerr != nil) == (err != nil), "malformed.negotiate_same_verdict")
	if nerr != nil {
		_, acc := e.Accepted()
		vAssert(vAnd(len(a.Name) == 0, !acc), "malformed.nothing_accepted_on_error")
	}
}
