//go:build verif

package wsflate

// vBitsCfg: a symbolic window-bits value constrained to the tier's domain
// (quick: {0,8,11,15}; thorough: {0,8..15}; plus 1 = "offered without value" when allowed).
func vBitsCfg(name string, allowOne bool) WindowBits {
	b := WindowBits(vU8(name))
	dom := vOr(b == 0, vOr(b == 8, vOr(b == 11, b == 15)))
	if vTier() > 0 {
		dom = vOr(b == 0, vAnd(b >= 8, b <= 15))
	}
	if allowOne {
		dom = vOr(dom, b == 1)
	}
	vAssume(dom)
	return b
}

func vParams(prefix string, allowOne bool) Parameters {
	return Parameters{
		ServerNoContextTakeover: vBool(prefix + ".snct"),
		ClientNoContextTakeover: vBool(prefix + ".cnct"),
		ServerMaxWindowBits:     vBitsCfg(prefix+".sbits", false),
		ClientMaxWindowBits:     vBitsCfg(prefix+".cbits", allowOne),
	}
}

// vLegalAnswer: RFC 7692 §7.1.1-7.1.2 legality of response `ans` to offer `off`.
func vLegalAnswer(off, ans Parameters) bool {
	ok := vImplies(off.ServerMaxWindowBits != 0, vAnd(ans.ServerMaxWindowBits != 0, ans.ServerMaxWindowBits <= off.ServerMaxWindowBits))
	ok = vAnd(ok, vImplies(ans.ClientMaxWindowBits != 0, vAnd(off.ClientMaxWindowBits != 0, ans.ClientMaxWindowBits != 1)))
	ok = vAnd(ok, vImplies(vAnd(ans.ClientMaxWindowBits != 0, off.ClientMaxWindowBits > 1), ans.ClientMaxWindowBits <= off.ClientMaxWindowBits))
	ok = vAnd(ok, vImplies(off.ServerNoContextTakeover, ans.ServerNoContextTakeover))
	for _, b := range []WindowBits{ans.ServerMaxWindowBits, ans.ClientMaxWindowBits} {
		ok = vAnd(ok, vImplies(b != 0, vAnd(b >= 8, b <= 15)))
	}
	return ok
}
