//go:build verif

package wsflate

import (
	"bytes"
	"io"

	"github.com/gobwas/ws"
)

var vTail = []byte{0x00, 0x00, 0xff, 0xff} // RFC 7692 §7.2.1

// C12_cbuf_step (inductive step): from an arbitrary cbuf state, one Write of <= 9 bytes keeps
// "flushed ++ held == everything written" and "held = min(4, total)".
func C12_cbuf_step() {
	dst := &vRecW{}
	n0 := vChoose("n0", 5)
	c := &cbuf{dst: dst, n: n0}
	held := vBytes("held", 4)
	copy(c.buf[:], held)
	p := vBytes("p", vChoose("plen", 10))
	keep := append([]byte{}, p...)
	k, err := c.Write(p)
	vAssert(vAnd(err == nil, k == len(p)), "cbuf.accepts_all")
	vAssert(vEqBytes(p, keep), "cbuf.caller_intact")
	want := len(p) + n0
	if want > 4 {
		want = 4
	}
	vAssert(c.n == want, "cbuf.holds_min4")
	all := append(append([]byte{}, held[:n0]...), keep...)
	now := append(append([]byte{}, dst.all...), c.buf[:c.n]...)
	vAssert(vEqBytes(now, all), "cbuf.stream_preserved")
	vTraceBytes("flushed", dst.all)
}

// vComp is a stub compressor emitting ARBITRARY bytes (the real DEFLATE coder is outside reach).
type vComp struct {
	w   io.Writer
	out []byte
}

func (c *vComp) emit(tag string, max int) error {
	b := vBytes(tag, vChoose(tag+".n", max+1))
	c.out = append(c.out, b...)
	_, err := c.w.Write(b)
	return err
}
func (c *vComp) Write(p []byte) (int, error) { return len(p), c.emit("cw", 3) }
func (c *vComp) Flush() error                { return c.emit("cf", 5) }

// C12_writer_tail: Flush/Close succeed iff the compressor's output ends in 00 00 ff ff; then the
// destination, with that tail appended, is byte-for-byte the compressor's output; otherwise the
// error is reported and is sticky.
func C12_writer_tail() {
	dst := &vRecW{}
	var comp *vComp
	w := NewWriter(dst, func(x io.Writer) Compressor { comp = &vComp{w: x}; return comp })
	writes := 1 + vChoose("writes", 2)
	for i := 0; i < writes; i++ {
		k, err := w.Write([]byte{'d', 'a', 't', 'a'})
		vAssert(vAnd(err == nil, k == 4), "wt.write_ok")
	}
	useClose := vChoose("close", 2) == 1
	var err error
	if useClose {
		w.Flush()
		err = w.Close()
	} else {
		err = w.Flush()
	}
	out := comp.out
	endsInTail := len(out) >= 4
	if endsInTail {
		endsInTail = vConcrete(vIte(vEqBytes(out[len(out)-4:], vTail), 1, 0)) == 1
	}
	if useClose && err != nil {
		return // Flush already failed; covered by the other branch
	}
	vAssert((err == nil) == endsInTail, "wt.ok_iff_stream_ends_in_tail")
	if err == nil {
		vAssert(vEqBytes(append(append([]byte{}, dst.all...), vTail...), out), "wt.destination_plus_tail_is_compressor_output")
	} else {
		_, e2 := w.Write([]byte{'x'})
		vAssert(vAnd(e2 == err, vAnd(w.Flush() == err, w.Err() == err)), "wt.error_sticky")
		// Reset re-arms the writer as new (C18)
		dst2 := &vRecW{}
		w.Reset(dst2)
		vAssert(vAnd(w.Err() == nil, vAnd(w.cbuf.n == 0, vAnd(w.cbuf.err == nil, w.cbuf.buf == [4]byte{}))), "wt.reset_as_new")
	}
}

// vDecomp consumes its source with an arbitrary pattern of Read(k)/ReadByte calls.
type vDecomp struct {
	r    io.Reader
	seen []byte
	eof  bool
}

func (d *vDecomp) Read(p []byte) (int, error) {
	nd := 4 + 2*vTier() // nondeterministic operations, then plain Read(9) until EOF
	for i := 0; i < 32 && !d.eof; i++ {
		how, k := 0, 1
		if i < nd {
			if _, ok := d.r.(io.ByteReader); ok {
				how = vChoose("how", 2)
			}
			if how == 0 {
				k = vChoose("k", 2)
			}
		}
		if how == 1 {
			b, err := d.r.(io.ByteReader).ReadByte()
			if err == io.EOF {
				d.eof = true
				break
			}
			if err != nil {
				return 0, err
			}
			d.seen = append(d.seen, b)
			continue
		}
		buf := make([]byte, 1+k*8)
		n, err := d.r.Read(buf)
		d.seen = append(d.seen, buf[:n]...)
		if err == io.EOF {
			d.eof = true
		} else if err != nil {
			return 0, err
		}
	}
	return 0, io.EOF
}

type vPlain struct{ r io.Reader }

func (p vPlain) Read(b []byte) (int, error) { return p.r.Read(b) }

// C12_suffixed_reader: whatever the decompressor's read pattern and the source's chunking, it
// sees exactly payload ++ 00 00 ff ff 01 00 00 ff ff and then EOF.
func C12_suffixed_reader() {
	n := vChoose("n", 4)
	payload := vBytes("p", n)
	var src io.Reader = bytes.NewReader(payload)
	byteReader := vChoose("bytereader", 2) == 1
	if !byteReader {
		src = vPlain{&vBytesSrc{data: payload, one: vChoose("one", 2) == 1, eofWith: vChoose("eofwith", 2) == 1}}
	}
	var d *vDecomp
	r := NewReader(src, func(x io.Reader) Decompressor { d = &vDecomp{r: x}; return d })
	_, hasBR := d.r.(io.ByteReader)
	vAssert(hasBR == byteReader, "sr.bytereader_offered_iff_source_has_it")
	_, err := r.Read(make([]byte, 8))
	vAssert(err == io.EOF, "sr.eof")
	want := append(append([]byte{}, payload...), 0x00, 0x00, 0xff, 0xff, 0x01, 0x00, 0x00, 0xff, 0xff)
	vAssert(vEqBytes(d.seen, want), "sr.sees_payload_plus_tail")
	// Reset re-arms the suffix for the next message (C18)
	src2 := bytes.NewReader([]byte{7})
	r.Reset(src2)
	vAssert(vAnd(r.Err() == nil, vAnd(r.sr.pos == 0, r.sr.r != nil)), "sr.reset_as_new")
}

// identity codec with the sync-flush tail, to exercise the library's own framing code
type vIdComp struct{ w io.Writer }

func (c vIdComp) Write(p []byte) (int, error) { return c.w.Write(p) }
func (c vIdComp) Flush() error                { _, err := c.w.Write(vTail); return err }

type vIdDecomp struct {
	r    io.Reader
	data []byte
	done bool
	pos  int
}

func (d *vIdDecomp) Read(p []byte) (int, error) {
	if !d.done {
		buf := make([]byte, 16)
		for i := 0; i < 64; i++ {
			n, err := d.r.Read(buf)
			d.data = append(d.data, buf[:n]...)
			if err != nil {
				break
			}
		}
		d.done = true
		if len(d.data) >= 9 {
			d.data = d.data[:len(d.data)-9]
		}
	}
	if d.pos >= len(d.data) {
		return 0, io.EOF
	}
	n := copy(p, d.data[d.pos:])
	d.pos += n
	return n, nil
}

// C12_frame_helpers: the frame-level helpers keep header and payload (apart from RSV1 and the
// length), refuse non-final frames, pass uncompressed frames through.
func C12_frame_helpers() {
	h := Helper{
		Compressor:   func(w io.Writer) Compressor { return vIdComp{w} },
		Decompressor: func(r io.Reader) Decompressor { return &vIdDecomp{r: r} },
	}
	n := vChoose("n", 4)
	p := vBytes("p", n)
	f := ws.Frame{Header: ws.Header{Fin: vBool("fin"), OpCode: ws.OpCode(1 + vChoose("op", 2)), Rsv: vU8("rsv") & 3, Length: int64(n)}, Payload: p}
	c, err := h.CompressFrame(f)
	if !f.Header.Fin {
		vAssert(err != nil, "fh.compress_refuses_nonfinal")
		_, derr := h.DecompressFrame(f)
		vAssert(derr != nil, "fh.decompress_refuses_nonfinal")
		return
	}
	vAssert(err == nil, "fh.compress_ok")
	vAssert(vAnd(c.Header.Rsv == f.Header.Rsv|4, vAnd(c.Header.OpCode == f.Header.OpCode, c.Header.Fin)), "fh.header_same_but_rsv1")
	vAssert(c.Header.Length == int64(len(c.Payload)), "fh.length_is_payload_length")
	vAssert(vEqBytes(c.Payload, p), "fh.identity_codec_payload_without_tail")
	d, err := h.DecompressFrame(c)
	vAssert(err == nil, "fh.decompress_ok")
	vAssert(vAnd(d.Header == f.Header, vEqBytes(d.Payload, p)), "fh.roundtrip_same_frame")
	// an uncompressed frame passes through untouched
	u, err := h.DecompressFrame(f)
	vAssert(vAnd(err == nil, vAnd(u.Header == f.Header, vEqBytes(u.Payload, p))), "fh.uncompressed_untouched")
}
