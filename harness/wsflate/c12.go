//go:build verif

package wsflate

import (
	"io"
)

var vTail = []byte{0x00, 0x00, 0xff, 0xff} // RFC 7692 §7.2.1

// vComp is a stub compressor emitting ARBITRARY bytes (the real DEFLATE coder is outside reach).
type vComp struct {
	w   io.Writer
	out []byte
}

func (c *vComp) emit(tag string, max int) error {
	b := vBytes(tag, vChoose(tag+".n", max+1))
	c.out = append(c.out, b...)
	_, err := c.w.Write(b)
	return err
}
func (c *vComp) Write(p []byte) (int, error) { return len(p), c.emit("cw", 3) }
func (c *vComp) Flush() error                { return c.emit("cf", 5) }

// vDecomp consumes its source with an arbitrary pattern of Read(k)/ReadByte calls.
type vDecomp struct {
	r    io.Reader
	seen []byte
	eof  bool
}

func (d *vDecomp) Read(p []byte) (int, error) {
	nd := 4 + 2*vTier() // nondeterministic operations, then plain Read(9) until EOF
	for i := 0; i < 32 && !d.eof; i++ {
		how, k := 0, 1
		if i < nd {
			if _, ok := d.r.(io.ByteReader); ok {
				how = vChoose("how", 2)
			}
			if how == 0 {
				k = vChoose("k", 2)
			}
		}
		if how == 1 {
			b, err := d.r.(io.ByteReader).ReadByte()
			if err == io.EOF {
				d.eof = true
				break
			}
			if err != nil {
				return 0, err
			}
			d.seen = append(d.seen, b)
			continue
		}
		buf := make([]byte, 1+k*8)
		n, err := d.r.Read(buf)
		d.seen = append(d.seen, buf[:n]...)
		if err == io.EOF {
			d.eof = true
		} else if err != nil {
			return 0, err
		}
	}
	return 0, io.EOF
}

type vPlain struct{ r io.Reader }

func (p vPlain) Read(b []byte) (int, error) { return p.r.Read(b) }

// identity codec with the sync-flush tail, to exercise the library's own framing code
type vIdComp struct{ w io.Writer }

func (c vIdComp) Write(p []byte) (int, error) { return c.w.Write(p) }
func (c vIdComp) Flush() error                { _, err := c.w.Write(vTail); return err }

type vIdDecomp struct {
	r    io.Reader
	data []byte
	done bool
	pos  int
}

func (d *vIdDecomp) Read(p []byte) (int, error) {
	if !d.done {
		buf := make([]byte, 16)
		for i := 0; i < 64; i++ {
			n, err := d.r.Read(buf)
			d.data = append(d.data, buf[:n]...)
			if err != nil {
				break
			}
		}
		d.done = true
		if len(d.data) >= 9 {
			d.data = d.data[:len(d.data)-9]
		}
	}
	if d.pos >= len(d.data) {
		return 0, io.EOF
	}
	n := copy(p, d.data[d.pos:])
	d.pos += n
	return n, nil
}
