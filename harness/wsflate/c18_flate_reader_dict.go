//go:build verif

package wsflate

import (
	"bytes"
	"compress/flate"
	"io"
)

// C18_flate_reader_dict: a decompression reader whose configured constructor does more than
// flate.NewReader -- it presets a dictionary (symbolic bytes), as shared-dictionary set-ups do --
// over the REAL inflater.  The message is a fixed-Huffman block consisting of one match
// <length 3, distance 3> that reaches into the dictionary, followed by the sync marker:
// 02 22 00 00 (+ the tail the reader appends).  Read by a fresh reader and by one that was reset
// after an earlier message (read completely, partly or not at all): the same bytes -- "the same
// configuration" includes what the constructor set up.
func C18_flate_reader_dict() {
	tail := vBytes("dict", 3)
	dict := append([]byte("xyz"), tail...)
	ctor := func(x io.Reader) Decompressor { return flate.NewReaderDict(x, dict) }
	msg := []byte{0x02, 0x22, 0x00, 0x00}
	mk := func(kind int) io.Reader {
		if kind == 0 {
			return bytes.NewReader(msg)
		}
		return &vBytesSrc{data: msg}
	}
	fresh := NewReader(mk(vChoose("freshkind", 2)), ctor)
	want, err := io.ReadAll(fresh)
	vAssert(vAnd(err == nil, vEqBytes(want, tail)), "dict.fresh_reader_reads_through_the_dictionary")
	r := NewReader(mk(vChoose("oldkind", 2)), ctor)
	switch vChoose("consume", 3) {
	case 1:
		b := make([]byte, 1)
		r.Read(b)
	case 2:
		io.ReadAll(r)
	}
	r.Reset(mk(vChoose("newkind", 2)))
	got, err := io.ReadAll(r)
	vAssert(err == nil, "dict.read_after_reset_ok")
	vAssert(vEqBytes(got, want), "dict.next_message_as_new")
}
