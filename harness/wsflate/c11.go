//go:build verif

package wsflate

import (
	"github.com/gobwas/ws"
)

// vPeer: the client's connection; on the first Read it runs the library's Upgrader on the
// bytes the Dialer wrote (sequential composition of the two real peers).
type vPeer struct {
	req     []byte
	resp    []byte
	pos     int
	started bool
	up      *ws.Upgrader
	srvHS   ws.Handshake
	srvErr  error
	chunk   int // transport chunk size for both directions (0 = unlimited)
}

func (c *vPeer) Write(p []byte) (int, error) { c.req = append(c.req, p...); return len(p), nil }
func (c *vPeer) Read(p []byte) (int, error) {
	if !c.started {
		c.started = true
		half := &vHalf{in: c.req, chunk: c.chunk}
		c.srvHS, c.srvErr = c.up.Upgrade(half)
		c.resp = half.out
	}
	h := &vHalf{in: c.resp, pos: c.pos, chunk: c.chunk}
	n, err := h.Read(p)
	c.pos = h.pos
	return n, err
}
