//go:build verif

package wsflate

import (
	"bytes"
	"compress/flate"
	"crypto/sha1"
	"encoding/base64"
	"io"
	"net/url"

	"github.com/gobwas/httphead"
	"github.com/gobwas/ws"
	"github.com/gobwas/ws/wsutil"
)

type vScript struct {
	out     []byte
	in      func(wrote []byte) []byte
	buf     []byte
	pos     int
	started bool
}

func (c *vScript) Write(p []byte) (int, error) { c.out = append(c.out, p...); return len(p), nil }
func (c *vScript) Read(p []byte) (int, error) {
	if !c.started {
		c.started = true
		c.buf = c.in(c.out)
	}
	if c.pos >= len(c.buf) {
		return 0, io.EOF
	}
	n := copy(p, c.buf[c.pos:])
	c.pos += n
	return n, nil
}

func vAcceptOf(wrote []byte) string {
	i := bytes.Index(wrote, []byte("Sec-WebSocket-Key: "))
	if i < 0 || len(wrote) < i+19+24 {
		return ""
	}
	h := sha1.Sum(append(append([]byte{}, wrote[i+19:i+19+24]...), "258EAFA5-E914-47DA-95CA-C5AB0DC85B11"...))
	out := make([]byte, 28)
	base64.StdEncoding.Encode(out, h[:])
	return string(out)
}

func vMaskedFrame(op byte, fin bool, key [4]byte, p []byte) []byte {
	b := []byte{op, 0x80 | byte(len(p)), key[0], key[1], key[2], key[3]}
	if fin {
		b[0] |= 0x80
	}
	for i, c := range p {
		b = append(b, c^key[i%4])
	}
	return b
}

// vServerSession: one complete server-side session over its own in-memory connection; returns
// everything observable about it.
func vServerSession(tok, payload []byte, key [4]byte) []byte {
	var obs []byte
	req := []byte("GET /x HTTP/1.1\r\nHost: h\r\nUpgrade: websocket\r\nConnection: Upgrade\r\nSec-WebSocket-Version: 13\r\nSec-WebSocket-Key: dGhlIHNhbXBsZSBub25jZQ==\r\nSec-WebSocket-Protocol: x, ")
	req = append(req, tok...)
	req = append(req, "\r\nSec-WebSocket-Extensions: permessage-deflate; client_max_window_bits\r\n\r\n"...)
	e := Extension{Parameters: DefaultParameters}
	u := ws.Upgrader{Protocol: func(p []byte) bool { return len(p) == 2 }, Negotiate: e.Negotiate}
	hconn := &vHalf{in: req}
	hs, err := u.Upgrade(hconn)
	if err != nil {
		return vSessProblem(obs, "upgrade-error")
	}
	obs = append(obs, byte(len(hs.Extensions)))
	obs = append(obs, hconn.out...)
	// a second handshake through the Extension-callback path
	u2 := ws.Upgrader{Protocol: func(p []byte) bool { return len(p) == 2 }, Extension: func(o httphead.Option) bool { return true }}
	req2 := append([]byte{}, req[:len(req)-2]...)
	req2 = append(req2, "X-More: 1\r\n\r\n"...)
	hconn2 := &vHalf{in: req2}
	hs2, err := u2.Upgrade(hconn2)
	if err != nil || len(hs2.Extensions) != 1 {
		return append(obs, "upgrade2-error"...)
	}
	// a third handshake whose subprotocol is chosen by the selector all sessions share
	u3 := ws.Upgrader{Protocol: func(p []byte) bool { return vSharedSelect(string(p)) }}
	hconn3 := &vHalf{in: []byte("GET /x HTTP/1.1\r\nHost: h\r\nUpgrade: websocket\r\nConnection: Upgrade\r\nSec-WebSocket-Version: 13\r\nSec-WebSocket-Key: dGhlIHNhbXBsZSBub25jZQ==\r\nSec-WebSocket-Protocol: zz, pgg\r\n\r\n")}
	hs3, err := u3.Upgrade(hconn3)
	if err != nil || hs3.Protocol != "pgg" {
		return vSessProblem(obs, "upgrade3-error")
	}
	// frames from the client: a ping, then a fragmented text message
	// (a 125-byte ping: its pong is built in a pooled buffer — smaller ones are not pooled)
	big := append(bytes.Repeat([]byte{'x'}, 124), payload[0])
	wire := vMaskedFrame(9, true, key, big)
	wire = append(wire, vMaskedFrame(10, true, key, payload)...) // an unsolicited pong with a payload
	wire = append(wire, vMaskedFrame(1, false, key, payload[:1])...)
	wire = append(wire, vMaskedFrame(0, true, key, payload[1:])...)
	// (the transport hands the bytes over in pieces of at most 64: the 125-byte ping payload does
	// not arrive in one Read)
	conn := &vHalf{in: wire, chunk: 64}
	data, op, err := wsutil.ReadClientData(conn)
	if err != nil {
		return vSessProblem(obs, "read-error")
	}
	obs = append(obs, byte(op))
	obs = append(obs, data...)
	// answer: through the fragmenting writer with the compression bit state attached
	var ms MessageState
	ms.SetCompressed(true)
	// (another connection of this process has just failed while using a pooled writer of the
	// same size class and handed it back, as a deferred PutWriter does)
	broken := wsutil.GetWriter(&vFailW{}, ws.StateServerSide, ws.OpBinary, 128)
	broken.Write(data)
	broken.Flush()
	wsutil.PutWriter(broken)
	w := wsutil.GetWriter(conn, ws.StateServerSide|ws.StateExtended, ws.OpText, 128)
	w.SetExtensions(&ms)
	if _, err := w.Write(data); err != nil {
		obs = vSessProblem(obs, "pooled-writer-write-error")
	}
	if err := w.Flush(); err != nil {
		obs = vSessProblem(obs, "pooled-writer-flush-error")
	}
	wsutil.PutWriter(w)
	wsutil.WriteServerMessage(conn, ws.OpClose, ws.NewCloseFrameBody(ws.StatusNormalClosure, "bye"))
	obs = append(obs, conn.out...)
	obs = append(obs, ws.CompiledPing...)
	// a malformed close frame big enough for the pooled buffers (reserved code 1005 + reason)
	bad := append([]byte{0x03, 0xED}, bytes.Repeat([]byte{'z'}, 68)...)
	bad[2] = payload[0]
	cconn := &vHalf{in: vMaskedFrame(8, true, key, bad)}
	_, _, cerr := wsutil.ReadClientData(cconn)
	if cerr == nil {
		return vSessProblem(obs, "bad-close-accepted")
	}
	obs = append(obs, cconn.out...)
	// an empty ping and an empty close from the client: answered with the smallest frames there are
	sconn0 := &vHalf{in: append(vMaskedFrame(9, true, key, nil), vMaskedFrame(8, true, key, nil)...)}
	if _, _, err := wsutil.ReadClientData(sconn0); err == nil {
		return vSessProblem(obs, "empty-close-not-reported")
	}
	if string(sconn0.out) != string([]byte{0x8a, 0x00, 0x88, 0x00}) {
		obs = vSessProblem(obs, "empty-replies-differ")
	}
	obs = append(obs, sconn0.out...)
	// a frame compressed and decompressed through the Helper all sessions share
	cf, herr := vSharedHelper.CompressFrame(ws.NewTextFrame(append([]byte{}, payload...)))
	if herr != nil {
		return vSessProblem(obs, "helper-compress-error")
	}
	obs = append(obs, cf.Payload...)
	df, herr := vSharedHelper.DecompressFrame(cf)
	if herr != nil || vConcrete(vIte(vEqBytes(df.Payload, payload), 1, 0)) != 1 {
		return vSessProblem(obs, "helper-roundtrip-error")
	}
	// ... and one through a Helper of this session's own with ANOTHER coder (here: the identity
	// codec), as connections with different compression settings in one process have
	ownHelper := Helper{Compressor: func(w io.Writer) Compressor { return vIdComp{w} }, Decompressor: func(r io.Reader) Decompressor { return &vIdDecomp{r: r} }}
	of, oerr := ownHelper.CompressFrame(ws.NewTextFrame(append([]byte{}, payload...)))
	if oerr != nil || vConcrete(vIte(vEqBytes(of.Payload, payload), 1, 0)) != 1 {
		return vSessProblem(obs, "own-helper-output-differs")
	}
	// the application's own reusable output buffer (capacity = a pool size class) sent on the
	// server side: it stays the application's, whatever other sessions do with the pools
	own := make([]byte, 128)
	for i := range own {
		own[i] = payload[i%len(payload)]
	}
	sconn := &vRecW{}
	wsutil.WriteServerMessage(sconn, ws.OpBinary, own)
	// and a client-side masked write of a pooled size right afterwards
	out := &vRecW{}
	msg := append(bytes.Repeat([]byte{'m'}, 99), payload[1])
	wsutil.WriteClientMessage(out, ws.OpBinary, msg)
	if len(out.all) != 6+100 {
		return vSessProblem(obs, "client-write-error")
	}
	for i := 0; i < 100; i++ {
		obs = append(obs, out.all[6+i]^out.all[2+i%4])
	}
	// handshake results are looked at LAST, after the pooled buffers have been through other
	// hands (engine: their content is arbitrary from here on; natively: recycled and scribbled)
	vPoisonPools()
	for i := range own {
		if vConcrete(vIte(own[i] == payload[i%len(payload)], 1, 0)) != 1 {
			return vSessProblem(obs, "own-buffer-clobbered")
		}
	}
	obs = append(obs, hs.Protocol...)
	obs = append(obs, hs2.Protocol...)
	obs = append(obs, hs2.Extensions[0].Name...)
	if _, ok := hs2.Extensions[0].Parameters.Get("client_max_window_bits"); ok {
		obs = append(obs, '=')
	}
	return obs
}

// vSessProblems counts the steps of a session that did not go as they do for a session running
// alone (each also leaves a marker in the observation).
var vSessProblems int

func vSessProblem(obs []byte, what string) []byte {
	vSessProblems++
	return append(obs, what...)
}

// vSharedSelect: a subprotocol selector built once (ws.SelectFromSlice over 20 names) and used by
// every server session through its Upgrader — configuration shared between connections.
var vSharedSelect func(string) bool

func vNewSharedConfig() {
	var names []string
	for i := 0; i < 20; i++ {
		names = append(names, string([]byte{'p', byte('a' + i), byte('a' + i)}))
	}
	vSharedSelect = ws.SelectFromSlice(names)
	// one frame-compression Helper for all sessions (as with wsflate.DefaultHelper or an
	// application-wide one; the stored-mode coder keeps it within the engine's reach)
	vSharedHelper = &Helper{
		Compressor: func(w io.Writer) Compressor {
			fw, _ := flate.NewWriter(w, flate.NoCompression)
			return fw
		},
		Decompressor: func(r io.Reader) Decompressor { return flate.NewReader(r) },
	}
}

var vSharedHelper *Helper

var vSharedDialer = ws.Dialer{Protocols: []string{"chat"}, Extensions: []httphead.Option{httphead.NewOption("permessage-deflate", map[string]string{"client_max_window_bits": ""})}}

// vClientSession: a client-side session (masked writes: observed after unmasking).
func vClientSession(payload []byte) []byte {
	var obs []byte
	// every session dials through a copy of one shared Dialer value (as with ws.DefaultDialer or
	// an application-wide dialer): the configuration, including the offered extension's
	// parameters, is shared memory that a session may only read
	d := vSharedDialer
	var offered []byte
	srv := &vScript{in: func(wrote []byte) []byte {
		if i := bytes.Index(wrote, []byte("Sec-WebSocket-Extensions: ")); i >= 0 {
			j := bytes.Index(wrote[i:], []byte("\r\n"))
			offered = append([]byte{}, wrote[i+26:i+j]...)
		}
		return []byte("HTTP/1.1 101 Switching Protocols\r\nUpgrade: websocket\r\nConnection: Upgrade\r\nSec-WebSocket-Accept: " + vAcceptOf(wrote) + "\r\nSec-WebSocket-Protocol: chat\r\nSec-WebSocket-Extensions: permessage-deflate; server_no_context_takeover; client_max_window_bits=10\r\n\r\n")
	}}
	_, hs, err := d.Upgrade(srv, &url.URL{Scheme: "ws", Host: "h", Path: "/"})
	if err != nil {
		return vSessProblem(obs, "dial-error")
	}
	obs = append(obs, hs.Protocol...)
	obs = append(obs, '[')
	obs = append(obs, offered...)
	obs = append(obs, ']')
	if len(hs.Extensions) == 1 {
		if v, ok := hs.Extensions[0].Parameters.Get("client_max_window_bits"); ok {
			obs = append(obs, v...)
		}
	}
	obs = append(obs, '|')
	out := &vRecW{}
	wsutil.WriteClientMessage(out, ws.OpBinary, payload)
	fs, ok := vParse(out.all)
	if !ok || len(fs) != 1 {
		return vSessProblem(obs, "write-error")
	}
	obs = append(obs, fs[0].payload...)
	// a message larger than the fragmenting writer's buffer: it leaves by write-through, masked in
	// a pooled copy, while other sessions use the same pools
	big := bytes.Repeat(payload, 40)
	wt := &vRecW{}
	cw := wsutil.NewWriterSize(wt, ws.StateClientSide, ws.OpBinary, 16)
	cw.Write(big)
	cw.Flush()
	wfs, wok := vParse(wt.all)
	var sentBig []byte
	for _, f := range wfs {
		sentBig = append(sentBig, f.payload...)
	}
	if !wok || len(sentBig) != len(big) {
		return vSessProblem(obs, "write-through-error")
	}
	for i := range big {
		if vConcrete(vIte(sentBig[i] == big[i], 1, 0)) != 1 {
			return vSessProblem(obs, "write-through-bytes-differ")
		}
	}
	// a message from the server with an interleaved ping that the client answers
	wire := []byte{0x02, byte(len(payload))}
	wire = append(wire, payload...)
	wire = append(wire, 0x89, 125)
	wire = append(wire, bytes.Repeat([]byte{'y'}, 124)...)
	wire = append(wire, payload[0], 0x80, 0x00)
	conn := &vHalf{in: wire}
	data, _, err := wsutil.ReadServerData(conn)
	if err != nil {
		return vSessProblem(obs, "read-error")
	}
	obs = append(obs, data...)
	fs, ok = vParse(conn.out)
	if !ok || len(fs) != 1 {
		return vSessProblem(obs, "pong-error")
	}
	obs = append(obs, fs[0].op)
	obs = append(obs, fs[0].payload...)
	// a malformed close from the server (reserved code 1005): the client answers 1002, masked
	bad := append([]byte{0x88, 0x04, 0x03, 0xED}, 'n', payload[0]&0x7f)
	bconn := &vHalf{in: bad}
	if _, _, err := wsutil.ReadServerData(bconn); err == nil {
		return vSessProblem(obs, "bad-close-accepted")
	}
	fs, ok = vParse(bconn.out)
	if !ok || len(fs) != 1 {
		return vSessProblem(obs, "close-reply-error")
	}
	obs = append(obs, fs[0].op)
	obs = append(obs, fs[0].payload...)
	// an empty ping and an empty close from the server: the replies are the smallest frames there
	// are (masked, as the client must)
	econn := &vHalf{in: []byte{0x89, 0x00, 0x88, 0x00}}
	if _, _, err := wsutil.ReadServerData(econn); err == nil {
		return vSessProblem(obs, "empty-close-not-reported")
	}
	fs, ok = vParse(econn.out)
	if !ok || len(fs) != 2 || !fs[0].masked || !fs[1].masked {
		return vSessProblem(obs, "empty-replies-error")
	}
	obs = append(obs, fs[0].op, fs[1].op)
	return obs
}
