//go:build verif

package wsflate

// C14_grid_pairs: the full window-bits domain {0,8..15} (offer side also "present without a
// value" for the client bits) for the configured/offered pair of ONE parameter at a time, the
// other parameter's pair taken from {0,15}: every cell of both 9x9(10) tables in the quick tier.
func C14_grid_pairs() {
	full := func(name string, allowOne bool) WindowBits {
		b := WindowBits(vU8(name))
		dom := vOr(b == 0, vAnd(b >= 8, b <= 15))
		if allowOne {
			dom = vOr(dom, b == 1)
		}
		vAssume(dom)
		return b
	}
	ends := func(name string) WindowBits {
		b := WindowBits(vU8(name))
		vAssume(vOr(b == 0, b == 15))
		return b
	}
	cfg := Parameters{ServerNoContextTakeover: vBool("cfg.snct"), ClientNoContextTakeover: vBool("cfg.cnct")}
	off := Parameters{ServerNoContextTakeover: vBool("off.snct"), ClientNoContextTakeover: vBool("off.cnct")}
	if vChoose("dim", 2) == 0 {
		cfg.ServerMaxWindowBits, off.ServerMaxWindowBits = full("cfg.sbits", false), full("off.sbits", false)
		cfg.ClientMaxWindowBits, off.ClientMaxWindowBits = ends("cfg.cbits"), ends("off.cbits")
	} else {
		cfg.ClientMaxWindowBits, off.ClientMaxWindowBits = full("cfg.cbits", false), full("off.cbits", true)
		cfg.ServerMaxWindowBits, off.ServerMaxWindowBits = ends("cfg.sbits"), ends("off.sbits")
	}
	opt := off.Option()
	e := Extension{Parameters: cfg}
	accept, err := e.Negotiate(opt)
	vAssert(err == nil, "pairs.wellformed_offer_no_error")
	if len(accept.Name) == 0 {
		return
	}
	var ans Parameters
	vAssert(ans.Parse(accept) == nil, "pairs.answer_parses")
	vAssert(vLegalAnswer(off, ans), "pairs.answer_legal")
}
