//go:build verif

package wsflate

import (
	"bytes"
	"io"
)

type vFailW struct{ calls int }

func (f *vFailW) Write(p []byte) (int, error) { f.calls++; return 0, io.ErrClosedPipe }

// vTailComp: an identity "compressor" that ends every flush with the sync-flush tail.
type vTailComp struct{ w io.Writer }

func (c *vTailComp) Write(p []byte) (int, error) { return c.w.Write(p) }
func (c *vTailComp) Flush() error                { _, err := c.w.Write(vTail); return err }

// vBufComp: a compressor WITHOUT the optional Reset method that keeps what it is given until Flush
// (as every real compressor does): state inside the compressor must not survive Writer.Reset.
type vBufComp struct {
	w    io.Writer
	pend []byte
}

func (c *vBufComp) Write(p []byte) (int, error) { c.pend = append(c.pend, p...); return len(p), nil }
func (c *vBufComp) Flush() error {
	out := append(c.pend, vTail...)
	c.pend = nil
	_, err := c.w.Write(out)
	return err
}

// vBufCloseComp: the same with a Close method (and still no Reset): closing it writes what is
// pending and a final block, as compress/flate's writer does.
type vBufCloseComp struct{ vBufComp }

func (c *vBufCloseComp) Close() error {
	out := append(c.pend, 1, 0, 0, 0xff, 0xff)
	c.pend = nil
	_, err := c.w.Write(out)
	return err
}

// C18_flate_resets: after Reset the compression writer and reader behave as new, whatever
// happened before (tail error, DESTINATION error, data held back, suffix partly consumed).
func C18_flate_resets() {
	if vChoose("which", 2) == 0 {
		bad := &vFailW{}
		var w *Writer
		switch vChoose("history", 5) {
		case 4: // a compressor with Close but without Reset, after a flushed message or with data still inside
			w = NewWriter(&vRecW{}, func(x io.Writer) Compressor { return &vBufCloseComp{vBufComp{w: x}} })
			w.Write(vBytes("old", 5))
			if vChoose("flushed", 2) == 1 {
				vAssert(w.Flush() == nil, "flate.closer_history_flush_ok")
			}
			dst := &vRecW{}
			w.Reset(dst)
			p := vBytes("p", 7)
			w.Write(p)
			vAssert(w.Flush() == nil, "flate.closer_flush_after_reset")
			vAssert(vEqBytes(dst.all, p), "flate.closer_writer_as_new_after_reset")
			return
		case 3: // data still inside a compressor that has no Reset method
			w = NewWriter(&vRecW{}, func(x io.Writer) Compressor { return &vBufComp{w: x} })
			w.Write(vBytes("old", 5))
			dst := &vRecW{}
			w.Reset(dst)
			p := vBytes("p", 7)
			w.Write(p)
			vAssert(w.Flush() == nil, "flate.writer_flush_after_reset")
			vAssert(vEqBytes(dst.all, p), "flate.writer_unflushed_compressor_data_dropped_by_reset")
			return
		case 0: // a destination that fails
			w = NewWriter(bad, func(x io.Writer) Compressor { return &vTailComp{w: x} })
			w.Write(vBytes("old", 6))
			vAssert(w.Flush() != nil, "flate.history_error_seen")
		case 1: // a compressor without the tail
			w = NewWriter(&vRecW{}, func(x io.Writer) Compressor { return vIdComp{w: x} })
			w.Write([]byte("abc"))
			w.c = &vTailComp{w: &w.cbuf} // (keeps the ctor path out of the way for the re-arm below)
		case 2: // plain successful message
			w = NewWriter(&vRecW{}, func(x io.Writer) Compressor { return &vTailComp{w: x} })
			w.Write(vBytes("old", 5))
			vAssert(w.Flush() == nil, "flate.history_ok")
		}
		w.ctor = func(x io.Writer) Compressor { return &vTailComp{w: x} }
		dst := &vRecW{}
		w.Reset(dst)
		vAssert(vAnd(w.Err() == nil, vAnd(w.cbuf.err == nil, vAnd(w.cbuf.n == 0, w.cbuf.buf == [4]byte{}))), "flate.writer_state_as_new")
		p := vBytes("p", 7)
		k, err := w.Write(p)
		vAssert(vAnd(err == nil, k == 7), "flate.writer_write_after_reset")
		vAssert(w.Flush() == nil, "flate.writer_flush_after_reset")
		vAssert(vEqBytes(dst.all, p), "flate.writer_output_after_reset_is_message_without_tail")
		return
	}
	// reader: consume part of a message (possibly into the suffix), then Reset
	first := vBytes("first", 3)
	var d *vIdDecomp
	r := NewReader(bytes.NewReader(first), func(x io.Reader) Decompressor { d = &vIdDecomp{r: x}; return d })
	if vChoose("consume", 2) == 1 {
		r.Read(make([]byte, 2))
	}
	second := vBytes("second", 4)
	r.Reset(bytes.NewReader(second))
	vAssert(vAnd(r.Err() == nil, vAnd(r.sr.pos == 0, r.sr.r != nil)), "flate.reader_state_as_new")
	got := make([]byte, 16)
	n := 0
	for i := 0; i < 8; i++ {
		m, err := r.Read(got[n:])
		n += m
		if err != nil {
			break
		}
	}
	vAssert(vEqBytes(got[:n], second), "flate.reader_reads_next_message_as_new")
}
