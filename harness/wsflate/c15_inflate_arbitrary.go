//go:build verif

package wsflate

import (
	"compress/flate"
	"io"
)

// C15_inflate_arbitrary: arbitrary bytes as a compressed payload into the library's decompression
// reader backed by the REAL compress/flate inflater: every Read returns a value or an error, the
// reader terminates (EOF or error) within a bounded number of reads, and never panics.
func C15_inflate_arbitrary() {
	// 1..2 arbitrary bytes (thorough: 3 bytes whose first block is not a dynamic-Huffman block —
	// with 3 free bytes the dynamic code-length tables did not finish within 10 minutes), followed
	// by the reader's own 9-byte suffix
	n := 1 + vChoose("n", 2+vTier())
	data := vBytes("z", n)
	if n == 3 {
		vAssume((data[0]>>1)&3 != 2)
	}
	src := &vBytesSrc{data: data, one: vChoose("chunk", 2) == 1}
	r := NewReader(src, func(x io.Reader) Decompressor { return flate.NewReader(x) })
	buf := make([]byte, 64)
	total := 0
	done := false
	for i := 0; i < 40 && !done; i++ {
		k, err := r.Read(buf)
		vAssert(vAnd(k >= 0, k <= len(buf)), "inflate.read_count_in_range")
		total += k
		if err != nil {
			done = true
		} else {
			vAssert(k > 0, "inflate.progress_or_error")
		}
	}
	vAssert(done, "inflate.terminates")
	// what n bytes + the 9-byte suffix can expand to is bounded (258 bytes per 2 input bits at most)
	vAssert(total <= 64*40, "inflate.output_bounded")
}
