//go:build verif

package wsflate

import (
	"bytes"
	"compress/flate"
	"io"
)

// vStored: the raw-DEFLATE stored-block form of msg without the sync-flush tail, as the
// compression writer produces it (block header, LEN, ~LEN, data, then the empty block's header 00).
func vStored(msg []byte) []byte {
	l := len(msg)
	out := []byte{0, byte(l), byte(l >> 8), ^byte(l), ^byte(l >> 8)}
	out = append(out, msg...)
	return append(out, 0)
}

// C18_flate_reader_sources: the decompression reader over the REAL inflater, reset from any
// earlier source kind (with or without ReadByte; nothing, part or all of the earlier message
// consumed) to any new source kind, reads the next message exactly as a fresh reader does.
func C18_flate_reader_sources() {
	mk := func(kind int, data []byte) io.Reader {
		if kind == 0 {
			return bytes.NewReader(data) // io.ByteReader
		}
		return &vBytesSrc{data: data, one: kind == 2} // plain io.Reader (whole / 1-byte reads)
	}
	first := vBytes("first", 3)
	second := vBytes("second", 2)
	r := NewReader(mk(vChoose("oldkind", 3), vStored(first)), func(x io.Reader) Decompressor { return flate.NewReader(x) })
	switch vChoose("consume", 3) {
	case 1:
		b := make([]byte, 1)
		k, err := r.Read(b)
		vAssert(vAnd(err == nil, vAnd(k == 1, b[0] == first[0])), "src.partial_read_ok")
	case 2:
		all, err := io.ReadAll(r)
		vAssert(vAnd(err == nil, vEqBytes(all, first)), "src.first_message_ok")
	}
	r.Reset(mk(vChoose("newkind", 3), vStored(second)))
	got, err := io.ReadAll(r)
	vAssert(err == nil, "src.read_after_reset_ok")
	vAssert(vEqBytes(got, second), "src.next_message_as_new")
}
