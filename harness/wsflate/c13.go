//go:build verif

package wsflate

import (
	"io"

	"github.com/gobwas/ws"
	"github.com/gobwas/ws/wsutil"
)

// C13_bits_exact: SetBits/UnsetBits touch RSV1 only, only on the first frame of a data message.
func C13_bits_exact() {
	h := vHdr()
	comp := vBool("compressed")
	op := byte(h.OpCode)
	firstData := vAnd(op&8 == 0, op != 0)
	r1 := h.Rsv&4 != 0
	ms := MessageState{compressed: comp}
	if vChoose("dir", 2) == 0 {
		g, err := ms.SetBits(h)
		vAssert((err != nil) == r1, "set.error_iff_rsv1_already_set")
		vAssert(ms.IsCompressed() == comp, "set.state_untouched")
		if err == nil {
			vAssert(vSameExceptRsv(g, h), "set.other_fields_untouched")
			vAssert(g.Rsv&3 == h.Rsv&3, "set.rsv23_untouched")
			vAssert((g.Rsv&4 != 0) == vAnd(firstData, comp), "set.rsv1_iff_first_data_and_compressed")
			vAssert(g.Rsv <= 7, "set.rsv_in_range")
		} else {
			_, isProto := err.(ws.ProtocolError)
			vAssert(isProto, "set.error_is_protocol_error")
		}
		// stateless helper
		g2, err2 := SetBit(h)
		vAssert((err2 != nil) == r1, "setbit.error_iff_rsv1")
		if err2 == nil {
			vAssert(vAnd((g2.Rsv&4 != 0) == firstData, vAnd(g2.Rsv&3 == h.Rsv&3, vSameExceptRsv(g2, h))), "setbit.sets_on_first_data")
		}
		return
	}
	g, err := ms.UnsetBits(h)
	vAssert((err != nil) == vAnd(!firstData, r1), "unset.error_iff_rsv1_on_control_or_continuation")
	if err != nil {
		_, isProto := err.(ws.ProtocolError)
		vAssert(isProto, "unset.error_is_protocol_error")
		vAssert(ms.IsCompressed() == comp, "unset.state_untouched_on_error")
		return
	}
	vAssert(vSameExceptRsv(g, h), "unset.other_fields_untouched")
	vAssert(vAnd(g.Rsv&4 == 0, g.Rsv&3 == h.Rsv&3), "unset.rsv1_cleared_rest_kept")
	vAssert(ms.IsCompressed() == vIteBool(firstData, r1, comp), "unset.state_tracks_first_frame_only")
	g2, was, err2 := UnsetBit(h)
	vAssert(vAnd(err2 == nil, vAnd(was == vAnd(firstData, r1), g2.Rsv == g.Rsv)), "unsetbit.agrees")
	ic, err3 := IsCompressed(h)
	vAssert(vAnd(err3 == nil, ic == was), "iscompressed.agrees")
}

// C13_writer_reader: through the fragmenting writer RSV1 is on the first frame of a
// compressed message only; the reader stack reports 'compressed' accordingly, hands out
// headers with RSV1 cleared, and a compressed fragmented masked message reads back identically
// (identity codec: framing only).
func C13_writer_reader() {
	client := vChoose("side", 2) == 0
	st := ws.StateServerSide
	if client {
		st = ws.StateClientSide
	}
	comp := vBool("compressed")
	var ms MessageState
	ms.SetCompressed(comp)
	dst := &vRecW{}
	bufLen := 1 + vChoose("buflen", 3)
	w := wsutil.NewWriterSize(dst, st|ws.StateExtended, ws.OpCode(1+vChoose("op", 2)), bufLen)
	w.SetExtensions(&ms)
	n := vChoose("n", 6)
	p := vBytes("p", n)
	for _, c := range p {
		vAssume(c < 0x80)
	}
	k, err := w.Write(p)
	vAssert(vAnd(err == nil, k == n), "wr.write_ok")
	vAssert(w.Flush() == nil, "wr.flush_ok")
	fs, ok := vParse(dst.all)
	vAssert(ok, "wr.whole_frames")
	if !ok {
		return
	}
	if n > 0 {
		vAssert(len(fs) >= 1, "wr.some_frame")
	}
	for i, f := range fs {
		vAssert((f.rsv&4 != 0) == vAnd(i == 0, comp), "wr.rsv1_on_first_frame_only")
		vAssert(f.rsv&3 == 0, "wr.rsv23_zero")
	}
	if len(fs) == 0 {
		return
	}
	// read back through the reader stack (peer side), with a ping between the fragments
	wire := dst.all
	peer := ws.StateClientSide
	if client {
		peer = ws.StateServerSide
	}
	var rms MessageState
	src := &vBytesSrc{data: wire, one: vChoose("chunk", 2) == 1}
	rd := &wsutil.Reader{Source: src, State: peer | ws.StateExtended, CheckUTF8: true, Extensions: []wsutil.RecvExtension{&rms}}
	h, err := rd.NextFrame()
	vAssert(err == nil, "rd.first_ok")
	if err != nil {
		return
	}
	vAssert(h.Rsv == 0, "rd.header_rsv1_cleared")
	vAssert(rms.IsCompressed() == comp, "rd.compressed_iff_first_frame_rsv1")
	var got []byte
	buf := make([]byte, 4)
	for i := 0; i < 40; i++ {
		m, e := rd.Read(buf)
		got = append(got, buf[:m]...)
		vAssert(rms.IsCompressed() == comp, "rd.state_stable_across_fragments")
		if e != nil {
			err = e
			break
		}
	}
	vAssert(err == io.EOF, "rd.eof")
	vAssert(vEqBytes(got, p), "rd.roundtrip_identical")
}

// C13_reader_step: one arbitrary frame (any RSV pattern) into a reader with the message state
// attached, from an arbitrary state.
func C13_reader_step() {
	server := vChoose("side", 2) == 0
	st := ws.StateClientSide
	if server {
		st = ws.StateServerSide
	}
	frag := vChoose("frag", 2) == 1
	if frag {
		st |= ws.StateFragmented
	}
	st |= ws.StateExtended
	pre := vBool("pre_compressed")
	rms := MessageState{compressed: pre}
	fin := vBool("fin")
	rsv := vU8("rsv")
	op := vU8("op")
	vAssume(vAnd(rsv <= 7, op <= 15))
	b0 := rsv<<4 | op
	if vConcrete(vIte(fin, 1, 0)) == 1 {
		b0 |= 0x80
	}
	wire := []byte{b0, 0}
	if server {
		wire = []byte{b0, 0x80, 1, 2, 3, 4}
	}
	src := &vBytesSrc{data: wire}
	rd := &wsutil.Reader{Source: src, State: st, Extensions: []wsutil.RecvExtension{&rms}}
	h, err := rd.NextFrame()
	control := op&8 != 0
	reserved := vOr(vIn(op, 3, 7), vIn(op, 0xb, 0xf))
	broken := vOr(reserved, vOr(vAnd(control, !fin), vOr(vAnd(frag, vAnd(!control, op != 0)), vAnd(!frag, op == 0))))
	firstData := vAnd(!control, op != 0)
	r1 := rsv&4 != 0
	if vConcrete(vIte(broken, 1, 0)) == 1 {
		vAssert(err != nil, "rstep.broken_rejected")
		vAssert(rms.IsCompressed() == pre, "rstep.state_kept_on_reject")
		return
	}
	_, isProto := err.(ws.ProtocolError)
	vAssert(isProto == vAnd(!firstData, r1), "rstep.rsv1_on_control_or_continuation_is_protocol_error")
	if err != nil {
		vAssert(rms.IsCompressed() == pre, "rstep.state_kept_on_error")
		return
	}
	vAssert(vAnd(h.Rsv&4 == 0, h.Rsv&3 == rsv&3), "rstep.header_rsv1_cleared_others_kept")
	vAssert(rms.IsCompressed() == vIteBool(firstData, r1, pre), "rstep.compressed_tracks_first_frame")
}
