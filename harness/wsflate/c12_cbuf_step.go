//go:build verif

package wsflate

// C12_cbuf_step (inductive step): from an arbitrary cbuf state, one Write of <= 9 bytes keeps
// "flushed ++ held == everything written" and "held = min(4, total)".
func C12_cbuf_step() {
	dst := &vRecW{}
	n0 := vChoose("n0", 5)
	c := &cbuf{dst: dst, n: n0}
	held := vBytes("held", 4)
	copy(c.buf[:], held)
	p := vBytes("p", vChoose("plen", 10))
	keep := append([]byte{}, p...)
	k, err := c.Write(p)
	vAssert(vAnd(err == nil, k == len(p)), "cbuf.accepts_all")
	vAssert(vEqBytes(p, keep), "cbuf.caller_intact")
	want := len(p) + n0
	if want > 4 {
		want = 4
	}
	vAssert(c.n == want, "cbuf.holds_min4")
	all := append(append([]byte{}, held[:n0]...), keep...)
	now := append(append([]byte{}, dst.all...), c.buf[:c.n]...)
	vAssert(vEqBytes(now, all), "cbuf.stream_preserved")
	vTraceBytes("flushed", dst.all)
}
