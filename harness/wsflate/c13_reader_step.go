//go:build verif

package wsflate

import (
	"github.com/gobwas/ws"
	"github.com/gobwas/ws/wsutil"
)

// C13_reader_step: one arbitrary frame (any RSV pattern) into a reader with the message state
// attached, from an arbitrary state.
func C13_reader_step() {
	server := vChoose("side", 2) == 0
	st := ws.StateClientSide
	if server {
		st = ws.StateServerSide
	}
	frag := vChoose("frag", 2) == 1
	if frag {
		st |= ws.StateFragmented
	}
	st |= ws.StateExtended
	pre := vBool("pre_compressed")
	rms := MessageState{compressed: pre}
	fin := vBool("fin")
	rsv := vU8("rsv")
	op := vU8("op")
	vAssume(vAnd(rsv <= 7, op <= 15))
	b0 := rsv<<4 | op
	if vConcrete(vIte(fin, 1, 0)) == 1 {
		b0 |= 0x80
	}
	wire := []byte{b0, 0}
	if server {
		wire = []byte{b0, 0x80, 1, 2, 3, 4}
	}
	src := &vBytesSrc{data: wire}
	rd := &wsutil.Reader{Source: src, State: st, Extensions: []wsutil.RecvExtension{&rms}}
	h, err := rd.NextFrame()
	control := op&8 != 0
	reserved := vOr(vIn(op, 3, 7), vIn(op, 0xb, 0xf))
	broken := vOr(reserved, vOr(vAnd(control, !fin), vOr(vAnd(frag, vAnd(!control, op != 0)), vAnd(!frag, op == 0))))
	firstData := vAnd(!control, op != 0)
	r1 := rsv&4 != 0
	if vConcrete(vIte(broken, 1, 0)) == 1 {
		vAssert(err != nil, "rstep.broken_rejected")
		vAssert(rms.IsCompressed() == pre, "rstep.state_kept_on_reject")
		return
	}
	_, isProto := err.(ws.ProtocolError)
	vAssert(isProto == vAnd(!firstData, r1), "rstep.rsv1_on_control_or_continuation_is_protocol_error")
	if err != nil {
		vAssert(rms.IsCompressed() == pre, "rstep.state_kept_on_error")
		return
	}
	vAssert(vAnd(h.Rsv&4 == 0, h.Rsv&3 == rsv&3), "rstep.header_rsv1_cleared_others_kept")
	vAssert(rms.IsCompressed() == vIteBool(firstData, r1, pre), "rstep.compressed_tracks_first_frame")
}
