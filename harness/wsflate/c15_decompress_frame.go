//go:build verif

package wsflate

import (
	"io"

	"github.com/gobwas/ws"
)

// C15_decompress_frame: DecompressFrame with any frame header and a misbehaving decompressor.
func C15_decompress_frame() {
	how := vChoose("how", 4)
	h := Helper{Decompressor: func(r io.Reader) Decompressor { return &vBadDecomp{r: r, how: how} }}
	f := ws.Frame{Header: vHdr(), Payload: vBytes("p", vChoose("n", 4))}
	h.DecompressFrame(f)
	vAssert(true, "decompress.returned")
}
