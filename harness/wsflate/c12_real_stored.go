//go:build verif

package wsflate

import (
	"bytes"
	"compress/flate"
	"io"
)

// C12_real_stored: the round trip through the REAL compress/flate coder in its stored mode
// (flate.NoCompression: control flow independent of the data, so the message bytes stay symbolic).
// The compression writer's output plus 00 00 ff ff inflates (real flate.NewReader as the
// independent decoder, and a stored-block parser written here) to the message, for every split
// of the message into two writes with an optional Flush between messages; the decompression
// reader recovers it from the library's own output for whole and 1-byte source chunking.
func C12_real_stored() {
	n := vChoose("n", 4+2*vTier())
	msg := vBytes("m", n)
	dst := &vRecW{}
	w := NewWriter(dst, func(x io.Writer) Compressor {
		f, _ := flate.NewWriter(x, flate.NoCompression)
		return f
	})
	s := vChoose("split", n+1)
	k1, e1 := w.Write(msg[:s])
	// optionally a Flush in mid-message: the output then has an interior sync-flush point (an
	// empty stored block), at which an inflater hands out a partial buffer
	mid := vChoose("midflush", 2) == 1
	if mid {
		vAssert(w.Flush() == nil, "real.mid_flush_ok")
	}
	k2, e2 := w.Write(msg[s:])
	vAssert(vAnd(vAnd(e1 == nil, e2 == nil), vAnd(k1 == s, k2 == n-s)), "real.writes_ok")
	err := w.Flush()
	vAssert(err == nil, "real.flush_ok")
	if err != nil {
		return
	}
	out := append([]byte{}, dst.all...)
	vTraceBytes("compressed", out)
	// (a) a stored-block parser written here: every block is BFINAL=0/BTYPE=00 + LEN + ~LEN + data
	full := append(append([]byte{}, out...), vTail...)
	var got []byte
	ok := true
	for i := 0; i < len(full) && ok; {
		if i+5 > len(full) || full[i] != 0 {
			ok = false
			break
		}
		l := int(full[i+1]) | int(full[i+2])<<8
		nl := int(full[i+3]) | int(full[i+4])<<8
		if l^nl != 0xffff || i+5+l > len(full) {
			ok = false
			break
		}
		got = append(got, full[i+5:i+5+l]...)
		i += 5 + l
	}
	vAssert(ok, "real.output_plus_tail_is_stored_blocks")
	vAssert(vEqBytes(got, msg), "real.independent_parser_recovers_message")
	// (b) the real inflater on output ++ tail ++ final empty block
	fr := flate.NewReader(bytes.NewReader(append(append([]byte{}, full...), 1, 0, 0, 0xff, 0xff)))
	inf, ierr := io.ReadAll(fr)
	vAssert(vAnd(ierr == nil, vEqBytes(inf, msg)), "real.inflater_recovers_message")
	// (c) the library's decompression reader on the library's output
	src := &vBytesSrc{data: out, one: vChoose("chunk", 2) == 1}
	r := NewReader(src, func(x io.Reader) Decompressor { return flate.NewReader(x) })
	back, rerr := io.ReadAll(r)
	vAssert(rerr == nil, "real.reader_ok")
	vAssert(vEqBytes(back, msg), "real.reader_recovers_message")
	// (d) the one-shot helper over the real inflater
	hp := Helper{Decompressor: func(x io.Reader) Decompressor { return flate.NewReader(x) }}
	hback, herr := hp.Decompress(out)
	vAssert(vAnd(herr == nil, vEqBytes(hback, msg)), "real.helper_recovers_message")
	// a second message on the same writer/reader after Reset (no context takeover)
	if vChoose("second", 2) == 1 {
		dst2 := &vRecW{}
		w.Reset(dst2)
		w.Write(msg)
		vAssert(w.Flush() == nil, "real.second_flush_ok")
		vAssert(vEqBytes(dst2.all, out) || s != n && s != 0 || mid, "real.second_message_same_bytes")
		r.Reset(&vBytesSrc{data: dst2.all})
		back2, rerr2 := io.ReadAll(r)
		vAssert(vAnd(rerr2 == nil, vEqBytes(back2, msg)), "real.second_message_recovered")
	}
}
