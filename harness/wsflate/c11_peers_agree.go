//go:build verif

package wsflate

import (
	"net/url"

	"github.com/gobwas/httphead"
	"github.com/gobwas/ws"
)

// C11_peers_agree: the library's Dialer against the library's Upgrader: both succeed with the
// same subprotocol and the same extensions (with parameters), or both fail.
func C11_peers_agree() {
	vRandConcrete(true)
	var d ws.Dialer
	var u ws.Upgrader
	// client subprotocols: an ordered selection from {a,b,c}
	hole := vU8("tokenbyte") // one arbitrary token character inside a subprotocol name
	vAssume(vOr(vIn(hole, 'a', 'z'), vOr(vIn(hole, '0', '9'), vOr(hole == '-', hole == '.'))))
	// the fourth name differs from the second only in the letter case of one character
	// (subprotocol names are case-sensitive tokens)
	all := []string{"a", string([]byte{'b', hole}), "c", string([]byte{'b', hole ^ 0x20})}
	order := [][]int{{}, {0}, {1}, {0, 1}, {1, 0}, {2, 0, 1}, {3, 1}, {1, 3}}[vChoose("protocols", 8)]
	for _, i := range order {
		if i == 3 {
			vAssume(vIn(hole, 'a', 'z'))
		}
		d.Protocols = append(d.Protocols, all[i])
	}
	// server selector: arbitrary accept set
	acc := [4]bool{vBool("acc.a"), vBool("acc.bb"), vBool("acc.c"), vBool("acc.bB")}
	selector := vChoose("selector", 2)
	if selector == 1 {
		u.Protocol = func(p []byte) bool {
			for i, name := range all {
				if string(p) == name {
					return acc[i]
				}
			}
			return false
		}
	}
	// extensions
	var e Extension
	switch vChoose("ext", 7) {
	case 4: // two offers, both with (different) parameters, both accepted
		pv := vU8("paramvalue")
		vAssume(vIn(pv, '0', '9'))
		d.Extensions = []httphead.Option{httphead.NewOption("x-a", map[string]string{"p": string([]byte{pv})}), httphead.NewOption("x-b", map[string]string{"q": "22"})}
		u.Extension = func(o httphead.Option) bool { return true }
	case 1: // permessage-deflate offered, negotiated by the wsflate extension
		d.Extensions = []httphead.Option{(Parameters{ClientMaxWindowBits: 1, ServerNoContextTakeover: vChoose("snct", 2) == 1}).Option()}
		e = Extension{Parameters: Parameters{ServerNoContextTakeover: true, ClientNoContextTakeover: vChoose("cnct", 2) == 1, ClientMaxWindowBits: []WindowBits{0, 10}[vChoose("cbits", 2)]}}
		u.Negotiate = e.Negotiate
	case 2: // two offers, accept-by-name
		d.Extensions = []httphead.Option{httphead.NewOption("x-a", map[string]string{"p": "1"}), httphead.NewOption("x-b", nil)}
		want := []string{"x-a", "x-b", "x-none"}[vChoose("extname", 3)]
		u.Extension = func(o httphead.Option) bool { return string(o.Name) == want }
	case 6: // the same extension offered twice with different parameters (the RFC 7692 fallback
		// form), both accepted
		pv := vU8("paramvalue")
		vAssume(vIn(pv, '0', '9'))
		d.Extensions = []httphead.Option{httphead.NewOption("x-a", map[string]string{"p": string([]byte{pv})}), httphead.NewOption("x-a", map[string]string{"q": "2"})}
		u.Extension = func(o httphead.Option) bool { return true }
	case 5: // offered with parameters, accepted by name only (the answer is the bare token)
		if vBool("deflate") {
			d.Extensions = []httphead.Option{(Parameters{ClientMaxWindowBits: 1}).Option()}
			e = Extension{}
			u.Negotiate = e.Negotiate
		} else {
			d.Extensions = []httphead.Option{httphead.NewOption("x-a", map[string]string{"p": "1"})}
			u.Negotiate = func(o httphead.Option) (httphead.Option, error) {
				return httphead.Option{Name: append([]byte(nil), o.Name...)}, nil
			} // the argument is only valid during the call
		}
	case 3: // offered but the server negotiates nothing
		d.Extensions = []httphead.Option{httphead.NewOption("x-a", nil)}
	}
	// I/O configuration: one variation at a time
	env := vChoose("env", 7)
	switch env {
	case 1:
		d.ReadBufferSize = 256
	case 2:
		d.WriteBufferSize = 256
	case 3:
		u.ReadBufferSize = 256
	case 4:
		u.WriteBufferSize = 256
	case 5:
		d.ReadBufferSize, u.ReadBufferSize = 16, 16
	}
	// an extra request header after the library's own lines (longer than the small read buffers)
	if vBool("extraheader") {
		d.Header = ws.HandshakeHeaderString("X-Extra-Long-Header-Name: 0123456789012345678901234567890123456789\r\n")
	}
	peer := &vPeer{up: &u}
	if env == 6 {
		peer.chunk = 1
	}
	uri := &url.URL{Scheme: "ws", Host: "example.com", Path: "/"}
	br, chs, cerr := d.Upgrade(peer, uri)
	_ = br
	vAssert(peer.started, "peers.server_ran")
	vAssert((cerr == nil) == (peer.srvErr == nil), "peers.both_succeed_or_both_fail")
	if cerr != nil || peer.srvErr != nil {
		return
	}
	vPoisonPools() // whatever the handshakes returned must not live in recycled buffers
	vAssert(vEqStr(chs.Protocol, peer.srvHS.Protocol), "peers.same_subprotocol")
	vAssert(vOptsEqual(chs.Extensions, peer.srvHS.Extensions), "peers.same_extensions")
	// ... and with what was offered (names and parameter values), when the server takes offers as they are
	if u.Extension != nil && len(chs.Extensions) == len(d.Extensions) {
		vAssert(vOptsEqual(chs.Extensions, d.Extensions), "peers.extensions_as_offered")
	}
	// the subprotocol is the first of the client's list the selector accepts
	want := ""
	found := false
	if selector == 1 {
		for _, i := range order {
			if !found && vConcrete(vIte(acc[i], 1, 0)) == 1 {
				want = all[i]
				found = true
			}
		}
	}
	vAssert(vEqStr(chs.Protocol, want), "peers.first_acceptable_subprotocol")
	for _, x := range chs.Extensions {
		offered := false
		for _, o := range d.Extensions {
			if string(o.Name) == string(x.Name) {
				offered = true
			}
		}
		vAssert(offered, "peers.extensions_come_from_offer")
	}
}
