//go:build verif

package wsflate

import (
	"io"

	"github.com/gobwas/ws"
	"github.com/gobwas/ws/wsutil"
)

// C13_writer_reader: through the fragmenting writer RSV1 is on the first frame of a
// compressed message only; the reader stack reports 'compressed' accordingly, hands out
// headers with RSV1 cleared, and a compressed fragmented masked message reads back identically
// (identity codec: framing only).
func C13_writer_reader() {
	client := vChoose("side", 2) == 0
	st := ws.StateServerSide
	if client {
		st = ws.StateClientSide
	}
	comp := vBool("compressed")
	var ms MessageState
	ms.SetCompressed(comp)
	dst := &vRecW{}
	bufLen := 1 + vChoose("buflen", 3)
	w := wsutil.NewWriterSize(dst, st|ws.StateExtended, ws.OpCode(1+vChoose("op", 2)), bufLen)
	w.SetExtensions(&ms)
	if vChoose("resetup", 2) == 1 {
		// per-message set-up as applications do it: quick opcode reset, then the extensions again
		w.ResetOp(ws.OpCode(1 + vChoose("op2", 2)))
		w.SetExtensions(&ms)
	}
	n := vChoose("n", 6)
	p := vBytes("p", n)
	for _, c := range p {
		vAssume(c < 0x80)
	}
	k, err := w.Write(p)
	vAssert(vAnd(err == nil, k == n), "wr.write_ok")
	vAssert(w.Flush() == nil, "wr.flush_ok")
	fs, ok := vParse(dst.all)
	vAssert(ok, "wr.whole_frames")
	if !ok {
		return
	}
	if n > 0 {
		vAssert(len(fs) >= 1, "wr.some_frame")
	}
	for i, f := range fs {
		vAssert((f.rsv&4 != 0) == vAnd(i == 0, comp), "wr.rsv1_on_first_frame_only")
		vAssert(f.rsv&3 == 0, "wr.rsv23_zero")
	}
	// the writer is reused for a connection without compression (Reset, no SetExtensions): its
	// messages carry no RSV1 whatever the previous user's message state was
	if vChoose("reuse", 2) == 1 {
		dst2 := &vRecW{}
		w.Reset(dst2, st, ws.OpBinary)
		w.Write(p)
		w.Flush()
		fs2, ok2 := vParse(dst2.all)
		vAssert(ok2, "wr.reused_whole_frames")
		for _, f := range fs2 {
			vAssert(f.rsv == 0, "wr.reused_writer_without_extension_sets_no_rsv")
		}
		return
	}
	if len(fs) == 0 {
		return
	}
	// read back through the reader stack (peer side), with a ping between the fragments
	wire := dst.all
	peer := ws.StateClientSide
	if client {
		peer = ws.StateServerSide
	}
	var rms MessageState
	src := &vBytesSrc{data: wire, one: vChoose("chunk", 2) == 1}
	rd := &wsutil.Reader{Source: src, State: peer | ws.StateExtended, CheckUTF8: true, Extensions: []wsutil.RecvExtension{&rms}}
	h, err := rd.NextFrame()
	vAssert(err == nil, "rd.first_ok")
	if err != nil {
		return
	}
	vAssert(h.Rsv == 0, "rd.header_rsv1_cleared")
	vAssert(rms.IsCompressed() == comp, "rd.compressed_iff_first_frame_rsv1")
	var got []byte
	buf := make([]byte, 4)
	for i := 0; i < 40; i++ {
		m, e := rd.Read(buf)
		got = append(got, buf[:m]...)
		vAssert(rms.IsCompressed() == comp, "rd.state_stable_across_fragments")
		if e != nil {
			err = e
			break
		}
	}
	vAssert(err == io.EOF, "rd.eof")
	vAssert(vEqBytes(got, p), "rd.roundtrip_identical")
}
