//go:build verif

package wsflate

import (
	"io"

	"github.com/gobwas/ws"
)

// C12_frame_helpers: the frame-level helpers keep header and payload (apart from RSV1 and the
// length), refuse non-final frames, pass uncompressed frames through.
func C12_frame_helpers() {
	h := Helper{
		Compressor:   func(w io.Writer) Compressor { return vIdComp{w} },
		Decompressor: func(r io.Reader) Decompressor { return &vIdDecomp{r: r} },
	}
	n := vChoose("n", 4)
	p := vBytes("p", n)
	f := ws.Frame{Header: ws.Header{Fin: vBool("fin"), OpCode: ws.OpCode(1 + vChoose("op", 2)), Rsv: vU8("rsv") & 3, Length: int64(n),
		// (masking information a caller put into the header before compressing is part of "the same header")
		Masked: vBool("masked"), Mask: [4]byte{vU8("m0"), vU8("m1"), vU8("m2"), vU8("m3")}}, Payload: p}
	c, err := h.CompressFrame(f)
	if !f.Header.Fin {
		vAssert(err != nil, "fh.compress_refuses_nonfinal")
		_, derr := h.DecompressFrame(f)
		vAssert(derr != nil, "fh.decompress_refuses_nonfinal")
		return
	}
	vAssert(err == nil, "fh.compress_ok")
	vAssert(vAnd(c.Header.Rsv == f.Header.Rsv|4, vAnd(c.Header.OpCode == f.Header.OpCode, c.Header.Fin)), "fh.header_same_but_rsv1")
	vAssert(vAnd(c.Header.Masked == f.Header.Masked, c.Header.Mask == f.Header.Mask), "fh.mask_fields_kept")
	vAssert(c.Header.Length == int64(len(c.Payload)), "fh.length_is_payload_length")
	vAssert(vEqBytes(c.Payload, p), "fh.identity_codec_payload_without_tail")
	// the result is the caller's: compressing another frame afterwards does not change it
	q := vBytes("q", 2)
	c2, err2 := h.CompressFrame(ws.Frame{Header: ws.Header{Fin: true, OpCode: ws.OpBinary, Length: 2}, Payload: q})
	vAssert(vAnd(err2 == nil, vEqBytes(c2.Payload, q)), "fh.second_compress_ok")
	vAssert(vEqBytes(c.Payload, p), "fh.result_survives_the_next_compress")
	d, err := h.DecompressFrame(c)
	vAssert(err == nil, "fh.decompress_ok")
	vAssert(vAnd(d.Header == f.Header, vEqBytes(d.Payload, p)), "fh.roundtrip_same_frame")
	// an uncompressed frame passes through untouched
	u, err := h.DecompressFrame(f)
	vAssert(vAnd(err == nil, vAnd(u.Header == f.Header, vEqBytes(u.Payload, p))), "fh.uncompressed_untouched")
}
