//go:build verif

package wsflate

// C14_grid: every server configuration x every single offer: an accepted offer gets a legal
// answer; encoding and parsing are mutual inverses.
func C14_grid() {
	cfg := vParams("cfg", false)
	off := vParams("off", true)
	opt := off.Option()
	var back Parameters
	vAssert(back.Parse(opt) == nil, "grid.offer_parses")
	vAssert(back == off, "grid.parse_inverts_option")
	e := Extension{Parameters: cfg}
	accept, err := e.Negotiate(opt)
	vAssert(err == nil, "grid.wellformed_offer_no_error")
	got, accepted := e.Accepted()
	vAssert(accepted == (len(accept.Name) != 0), "grid.accepted_flag_matches_answer")
	if len(accept.Name) == 0 {
		return
	}
	vAssert(string(accept.Name) == "permessage-deflate", "grid.answer_name")
	vAssert(got == off, "grid.accepted_reports_offer")
	var ans Parameters
	vAssert(ans.Parse(accept) == nil, "grid.answer_parses")
	vAssert(vLegalAnswer(off, ans), "grid.answer_legal")
	// a second negotiation on the same extension accepts nothing more
	again, err := e.Negotiate(opt)
	vAssert(vAnd(err == nil, len(again.Name) == 0), "grid.at_most_one_accepted")
	e.Reset()
	vAssert(e == Extension{Parameters: cfg}, "grid.reset_as_new")
}
