//go:build verif

package wsflate

import (
	"github.com/gobwas/ws"
)

// C13_bits_exact: SetBits/UnsetBits touch RSV1 only, only on the first frame of a data message.
func C13_bits_exact() {
	h := vHdr()
	comp := vBool("compressed")
	op := byte(h.OpCode)
	firstData := vAnd(op&8 == 0, op != 0)
	r1 := h.Rsv&4 != 0
	ms := MessageState{compressed: comp}
	if vChoose("dir", 2) == 0 {
		g, err := ms.SetBits(h)
		vAssert((err != nil) == r1, "set.error_iff_rsv1_already_set")
		vAssert(ms.IsCompressed() == comp, "set.state_untouched")
		if err == nil {
			vAssert(vSameExceptRsv(g, h), "set.other_fields_untouched")
			vAssert(g.Rsv&3 == h.Rsv&3, "set.rsv23_untouched")
			vAssert((g.Rsv&4 != 0) == vAnd(firstData, comp), "set.rsv1_iff_first_data_and_compressed")
			vAssert(g.Rsv <= 7, "set.rsv_in_range")
		} else {
			_, isProto := err.(ws.ProtocolError)
			vAssert(isProto, "set.error_is_protocol_error")
		}
		// stateless helper
		g2, err2 := SetBit(h)
		vAssert((err2 != nil) == r1, "setbit.error_iff_rsv1")
		if err2 == nil {
			vAssert(vAnd((g2.Rsv&4 != 0) == firstData, vAnd(g2.Rsv&3 == h.Rsv&3, vSameExceptRsv(g2, h))), "setbit.sets_on_first_data")
		}
		return
	}
	g, err := ms.UnsetBits(h)
	vAssert((err != nil) == vAnd(!firstData, r1), "unset.error_iff_rsv1_on_control_or_continuation")
	if err != nil {
		_, isProto := err.(ws.ProtocolError)
		vAssert(isProto, "unset.error_is_protocol_error")
		vAssert(ms.IsCompressed() == comp, "unset.state_untouched_on_error")
		return
	}
	vAssert(vSameExceptRsv(g, h), "unset.other_fields_untouched")
	vAssert(vAnd(g.Rsv&4 == 0, g.Rsv&3 == h.Rsv&3), "unset.rsv1_cleared_rest_kept")
	vAssert(ms.IsCompressed() == vIteBool(firstData, r1, comp), "unset.state_tracks_first_frame_only")
	g2, was, err2 := UnsetBit(h)
	vAssert(vAnd(err2 == nil, vAnd(was == vAnd(firstData, r1), g2.Rsv == g.Rsv)), "unsetbit.agrees")
	ic, err3 := IsCompressed(h)
	vAssert(vAnd(err3 == nil, ic == was), "iscompressed.agrees")
}
