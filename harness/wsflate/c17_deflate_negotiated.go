//go:build verif

package wsflate

import (
	"github.com/gobwas/ws"
)

// C17_deflate_negotiated: the zero-copy Upgrader with wsflate's negotiator.  The option handed to
// Negotiate lives in the pooled read buffer; what the handshake returns -- and what the
// negotiator reports as accepted -- must not, whatever the offer looks like next to the server's
// configuration: exactly the same parameters (in either order), fewer, more, a window size with
// symbolic digits.  Looked at only after the pools were recycled, and once more after a second,
// different handshake through the same Upgrader.
func C17_deflate_negotiated() {
	vRandConcrete(true)
	conf := Parameters{ServerNoContextTakeover: true, ClientNoContextTakeover: true}
	if vChoose("conf", 2) == 1 {
		conf = Parameters{ServerNoContextTakeover: true, ClientNoContextTakeover: true, ServerMaxWindowBits: 10}
	}
	d1, d2 := vU8("d1"), vU8("d2")
	vAssume(vAnd(d1 == '1', vIn(d2, '0', '5')))
	offer := []string{
		"permessage-deflate; client_no_context_takeover; server_no_context_takeover",
		"permessage-deflate; server_no_context_takeover; client_no_context_takeover",
		"permessage-deflate; server_no_context_takeover; client_no_context_takeover; server_max_window_bits=10",
		"permessage-deflate",
		"permessage-deflate; client_max_window_bits",
		"permessage-deflate; server_no_context_takeover; client_no_context_takeover; server_max_window_bits=" + string([]byte{d1, d2}),
	}[vChoose("offer", 6)]
	e := Extension{Parameters: conf}
	u := ws.Upgrader{Negotiate: e.Negotiate}
	req := "GET /x HTTP/1.1\r\nHost: h\r\nUpgrade: websocket\r\nConnection: Upgrade\r\nSec-WebSocket-Version: 13\r\nSec-WebSocket-Key: dGhlIHNhbXBsZSBub25jZQ==\r\nSec-WebSocket-Extensions: " + offer + "\r\n\r\n"
	half := &vHalf{in: []byte(req)}
	hs, err := u.Upgrade(half)
	vAssert(err == nil, "deflate.upgrade_ok")
	if err != nil {
		return
	}
	_, accepted := e.Accepted()
	// a second handshake through the same Upgrader (another negotiator instance as the API
	// requires one per connection), other bytes at the same buffer positions
	e2 := Extension{Parameters: conf}
	u.Negotiate = e2.Negotiate
	req2 := "GET /y HTTP/1.1\r\nHost: h\r\nUpgrade: websocket\r\nConnection: Upgrade\r\nSec-WebSocket-Version: 13\r\nSec-WebSocket-Key: dGhlIHNhbXBsZSBub25jZQ==\r\nSec-WebSocket-Extensions: x-webkit-deflate-frame; no_context_takeover;  max_window_bits=9; something_else\r\n\r\n"
	switch vChoose("second", 3) {
	case 1:
		_, err2 := u.Upgrade(&vHalf{in: []byte(req2)})
		vAssert(err2 == nil, "deflate.second_upgrade_ok")
	case 2:
		// another connection of the same server negotiates OTHER window sizes (another
		// configuration, another accepted offer) in between
		conf3 := conf
		conf3.ServerMaxWindowBits = 12
		e3 := Extension{Parameters: conf3}
		u.Negotiate = e3.Negotiate
		req3 := "GET /z HTTP/1.1\r\nHost: h\r\nUpgrade: websocket\r\nConnection: Upgrade\r\nSec-WebSocket-Version: 13\r\nSec-WebSocket-Key: dGhlIHNhbXBsZSBub25jZQ==\r\nSec-WebSocket-Extensions: permessage-deflate; server_no_context_takeover; client_no_context_takeover; server_max_window_bits=15\r\n\r\n"
		hs3, err3 := u.Upgrade(&vHalf{in: []byte(req3)})
		vAssert(vAnd(err3 == nil, len(hs3.Extensions) == 1), "deflate.other_upgrade_ok")
	}
	vPoisonPools()
	if len(hs.Extensions) == 0 {
		vAssert(!accepted, "deflate.accepted_iff_in_handshake")
		return
	}
	vAssert(vAnd(accepted, len(hs.Extensions) == 1), "deflate.accepted_iff_in_handshake")
	x := hs.Extensions[0]
	vAssert(string(x.Name) == "permessage-deflate", "deflate.name_survives_pool_reuse")
	// the returned option is the server's answer (its configured parameters), still
	var got Parameters
	perr := got.Parse(x)
	vAssert(vAnd(perr == nil, got == conf), "deflate.parameters_survive_pool_reuse")
	vAssert(x.Equal(conf.Option()), "deflate.option_is_what_was_answered")
}
