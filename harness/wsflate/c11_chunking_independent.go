//go:build verif

package wsflate

import (
	"github.com/gobwas/ws"
)

// C11_chunking_independent: outcome, handshake data and bytes written by the Upgrader do not
// depend on how the transport splits the request nor on the read buffer size, including header
// lines longer than the buffer.
func C11_chunking_independent() {
	pad := []int{0, 40}[vChoose("longline", 2)]
	hole := vBytes("hole", 2)
	for _, c := range hole {
		vAssume(vAnd(c != '\r', vAnd(c != '\n', vAnd(c != ':', vAnd(c != ' ', c != '\t')))))
	}
	req := []byte("GET /x HTTP/1.1\r\nHost: h\r\nUpgrade: websocket\r\nConnection: Upgrade\r\nSec-WebSocket-Version: 13\r\nSec-WebSocket-Key: dGhlIHNhbXBsZSBub25jZQ==\r\nSec-WebSocket-Protocol: a, ")
	req = append(req, hole...)
	req = append(req, "\r\nX-Pad: "...)
	for i := 0; i < pad; i++ {
		req = append(req, 'p')
	}
	req = append(req, "\r\n\r\n"...)
	mk := func() ws.Upgrader {
		return ws.Upgrader{Protocol: func(p []byte) bool { return len(p) == 2 }}
	}
	ref := &vHalf{in: req}
	u0 := mk()
	hs0, err0 := u0.Upgrade(ref)
	h := &vHalf{in: req, chunk: []int{1, 7}[vChoose("chunk", 2)]}
	u1 := mk()
	u1.ReadBufferSize = []int{16, 64, 0}[vChoose("rbuf", 3)]
	u1.WriteBufferSize = []int{0, 16}[vChoose("wbuf", 2)]
	hs1, err1 := u1.Upgrade(h)
	vAssert((err0 == nil) == (err1 == nil), "chunk.same_outcome")
	vAssert(hs0.Protocol == hs1.Protocol, "chunk.same_handshake")
	vAssert(vEqBytes(ref.out, h.out), "chunk.same_bytes_written")
	vTraceBytes("proto", []byte(hs1.Protocol))
}
