//go:build verif

package wsflate

func vPrepare()     {}
func vPoisonPools() {}

func vIn(b, lo, hi byte) bool { return vAnd(b >= lo, b <= hi) }
