//go:build verif

package wsflate

import (
	"io"
	"runtime/debug"

	"github.com/gobwas/httphead"
	"github.com/gobwas/pool/pbufio"
	"github.com/gobwas/pool/pbytes"
	"github.com/gobwas/ws"
)

func vPrepare() { debug.SetGCPercent(-1) }

type vScribble struct{}

func (vScribble) Read(p []byte) (int, error) {
	for i := range p {
		p[i] = 0xA5
	}
	return len(p), nil
}

// vPoisonPools (native side): recycle every size class of the library's byte and bufio pools
// and overwrite the recycled memory.  Under the engine the call is intercepted: the content of
// every buffer that was returned to a pool becomes arbitrary.
// vNoPoison (native only): set during the concurrent -race phase of C19 — there the other
// goroutines ARE the pool traffic, and the scribbling's own pool operations would only add
// synchronisation that hides races from the detector.
var vNoPoison bool

func vPoisonPools() {
	if vNoPoison {
		return
	}
	for size := 128; size <= 65536; size <<= 1 {
		var held [][]byte
		for i := 0; i < 4; i++ {
			b := pbytes.GetLen(size)
			for j := range b {
				b[j] = 0xA5
			}
			held = append(held, b)
		}
		for _, b := range held {
			pbytes.Put(b)
		}
	}
	for size := 256; size <= 65536; size <<= 1 {
		r := pbufio.GetReader(vScribble{}, size)
		r.Peek(size)
		pbufio.PutReader(r)
		w := pbufio.GetWriter(io.Discard, size)
		buf := make([]byte, size-1)
		for j := range buf {
			buf[j] = 0xA5
		}
		w.Write(buf)
		pbufio.PutWriter(w)
	}
}

func vIn(b, lo, hi byte) bool { return vAnd(b >= lo, b <= hi) }

func vHdr() ws.Header {
	var h ws.Header
	h.Fin = vBool("fin")
	h.Rsv = vU8("rsv")
	h.OpCode = ws.OpCode(vU8("op"))
	h.Masked = vBool("masked")
	h.Mask = [4]byte{vU8("m0"), vU8("m1"), vU8("m2"), vU8("m3")}
	h.Length = int64(vU64("len"))
	vAssume(h.Rsv <= 7)
	vAssume(h.OpCode <= 15)
	vAssume(h.Length >= 0)
	return h
}

func vSameExceptRsv(a, b ws.Header) bool {
	return vAnd(a.Fin == b.Fin, vAnd(a.OpCode == b.OpCode, vAnd(a.Masked == b.Masked, vAnd(a.Mask == b.Mask, a.Length == b.Length))))
}

type vRecW struct {
	all []byte
}

// (every destination write is a point at which other goroutines run and recycle the library's
// pools: a buffer the library released BEFORE handing it to the destination is no longer its own)
func (r *vRecW) Write(p []byte) (int, error) {
	vPoisonPools()
	r.all = append(r.all, p...)
	return len(p), nil
}

type vBytesSrc struct {
	data    []byte
	pos     int
	one     bool
	eofWith bool // deliver the last chunk together with io.EOF (allowed by io.Reader)
}

func (s *vBytesSrc) Read(p []byte) (int, error) {
	if s.pos >= len(s.data) {
		return 0, io.EOF
	}
	if len(p) == 0 {
		return 0, nil
	}
	n := len(s.data) - s.pos
	if n > len(p) {
		n = len(p)
	}
	if s.one {
		n = 1
	}
	copy(p, s.data[s.pos:s.pos+n])
	s.pos += n
	if s.eofWith && s.pos >= len(s.data) {
		return n, io.EOF
	}
	return n, nil
}

// vFrames parses concrete-length frames (harness-side RFC 6455 decoder).
type vFr struct {
	fin     bool
	rsv, op byte
	masked  bool
	payload []byte
}

func vParse(b []byte) (fs []vFr, ok bool) {
	for len(b) > 0 {
		if len(b) < 2 {
			return fs, false
		}
		f := vFr{fin: b[0]&0x80 != 0, rsv: (b[0] >> 4) & 7, op: b[0] & 15, masked: b[1]&0x80 != 0}
		n := int(vConcrete(uint64(b[1] & 0x7f)))
		off := 2
		if n > 125 {
			return fs, false
		}
		var key [4]byte
		if f.masked {
			if len(b) < 6 {
				return fs, false
			}
			copy(key[:], b[2:6])
			off = 6
		}
		if len(b) < off+n {
			return fs, false
		}
		f.payload = make([]byte, n)
		for i := range f.payload {
			f.payload[i] = b[off+i]
			if f.masked {
				f.payload[i] ^= key[i%4]
			}
		}
		fs = append(fs, f)
		b = b[off+n:]
	}
	return fs, true
}

type vHalf struct {
	in    []byte
	pos   int
	out   []byte
	chunk int
}

func (h *vHalf) Read(p []byte) (int, error) {
	if h.pos >= len(h.in) {
		return 0, io.EOF
	}
	n := len(h.in) - h.pos
	if n > len(p) {
		n = len(p)
	}
	if h.chunk > 0 && n > h.chunk {
		n = h.chunk
	}
	copy(p, h.in[h.pos:h.pos+n])
	h.pos += n
	return n, nil
}

func (h *vHalf) Write(p []byte) (int, error) {
	vPoisonPools()
	h.out = append(h.out, p...)
	return len(p), nil
}

func vOptsEqual(a, b []httphead.Option) bool {
	if len(a) != len(b) {
		return false
	}
	for i := range a {
		if !a[i].Equal(b[i]) {
			return false
		}
	}
	return true
}
