//go:build verif

package wsflate

import (
	"github.com/gobwas/httphead"
)

// C15_parameters_bytes: arbitrary bytes as permessage-deflate parameters through the real
// option scanner into Parse / Negotiate.
func C15_parameters_bytes() {
	hole := vBytes("h", 4+vTier())
	v := append([]byte("permessage-deflate; "), hole...)
	e := Extension{Parameters: DefaultParameters}
	index := -1
	var cur httphead.Option
	httphead.ScanOptions(v, func(i int, name, attr, val []byte) httphead.Control {
		if i != index {
			if index >= 0 {
				e.Negotiate(cur)
			}
			index = i
			cur = httphead.Option{Name: name}
		}
		if attr != nil {
			cur.Parameters.Set(attr, val)
		}
		return httphead.ControlContinue
	})
	if index >= 0 {
		e.Negotiate(cur)
		var p Parameters
		p.Parse(cur)
	}
	vAssert(true, "params.returned")
}
