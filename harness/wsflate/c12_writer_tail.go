//go:build verif

package wsflate

import (
	"io"
)

// C12_writer_tail: Flush/Close succeed iff the compressor's output ends in 00 00 ff ff; then the
// destination, with that tail appended, is byte-for-byte the compressor's output; otherwise the
// error is reported and is sticky.
func C12_writer_tail() {
	dst := &vRecW{}
	var comp *vComp
	w := NewWriter(dst, func(x io.Writer) Compressor { comp = &vComp{w: x}; return comp })
	writes := 1 + vChoose("writes", 2)
	for i := 0; i < writes; i++ {
		k, err := w.Write([]byte{'d', 'a', 't', 'a'})
		vAssert(vAnd(err == nil, k == 4), "wt.write_ok")
	}
	how := vChoose("close", 3) // Flush; Flush then Close; Close alone (the compressor has no Close method)
	useClose := how == 1
	var err error
	switch how {
	case 1:
		w.Flush()
		err = w.Close()
	case 2:
		err = w.Close()
	default:
		err = w.Flush()
	}
	out := comp.out
	endsInTail := len(out) >= 4
	if endsInTail {
		endsInTail = vConcrete(vIte(vEqBytes(out[len(out)-4:], vTail), 1, 0)) == 1
	}
	if useClose && err != nil {
		return // Flush already failed; covered by the other branch
	}
	vAssert((err == nil) == endsInTail, "wt.ok_iff_stream_ends_in_tail")
	if err == nil {
		vAssert(vEqBytes(append(append([]byte{}, dst.all...), vTail...), out), "wt.destination_plus_tail_is_compressor_output")
	} else {
		_, e2 := w.Write([]byte{'x'})
		vAssert(vAnd(e2 == err, vAnd(w.Flush() == err, w.Err() == err)), "wt.error_sticky")
		// Reset re-arms the writer as new (C18)
		dst2 := &vRecW{}
		w.Reset(dst2)
		vAssert(vAnd(w.Err() == nil, vAnd(w.cbuf.n == 0, vAnd(w.cbuf.err == nil, w.cbuf.buf == [4]byte{}))), "wt.reset_as_new")
	}
}
