//go:build verif

package wsflate

import (
	"bytes"
	"io"
)

// C12_suffixed_reader: whatever the decompressor's read pattern and the source's chunking, it
// sees exactly payload ++ 00 00 ff ff 01 00 00 ff ff and then EOF.
func C12_suffixed_reader() {
	n := vChoose("n", 4)
	payload := vBytes("p", n)
	var src io.Reader = bytes.NewReader(payload)
	byteReader := vChoose("bytereader", 2) == 1
	if !byteReader {
		src = vPlain{&vBytesSrc{data: payload, one: vChoose("one", 2) == 1, eofWith: vChoose("eofwith", 2) == 1}}
	}
	var d *vDecomp
	r := NewReader(src, func(x io.Reader) Decompressor { d = &vDecomp{r: x}; return d })
	_, hasBR := d.r.(io.ByteReader)
	vAssert(hasBR == byteReader, "sr.bytereader_offered_iff_source_has_it")
	_, err := r.Read(make([]byte, 8))
	vAssert(err == io.EOF, "sr.eof")
	want := append(append([]byte{}, payload...), 0x00, 0x00, 0xff, 0xff, 0x01, 0x00, 0x00, 0xff, 0xff)
	vAssert(vEqBytes(d.seen, want), "sr.sees_payload_plus_tail")
	// Reset re-arms the suffix for the next message (C18)
	src2 := bytes.NewReader([]byte{7})
	r.Reset(src2)
	vAssert(vAnd(r.Err() == nil, vAnd(r.sr.pos == 0, r.sr.r != nil)), "sr.reset_as_new")
}
