//go:build verif

package wsflate

import (
	"github.com/gobwas/httphead"
)

// C14_malformed: offers with unknown, duplicated or ill-valued parameters are errors.
func C14_malformed() {
	keys := []string{"server_no_context_takeover", "client_no_context_takeover", "server_max_window_bits", "client_max_window_bits", "x_unknown"}
	np := 1 + vChoose("np", 2+vTier())
	opt := httphead.Option{Name: []byte("permessage-deflate")}
	seen := [5]int{}
	mustErr, mayEither := false, false
	for i := 0; i < np; i++ {
		k := vChoose("key", len(keys))
		vl := vChoose("vlen", 5) // values of 0..4 arbitrary bytes (more digits than a window size can have)
		val := vBytes("val", vl)
		if vl == 0 {
			val = nil
		}
		opt.Parameters.Set([]byte(keys[k]), val)
		seen[k]++
		if seen[k] > 1 || k == 4 {
			mustErr = true
		}
		switch k {
		case 0, 1:
			if vl != 0 {
				mustErr = true
			}
		case 2, 3:
			if vl == 0 {
				if k == 2 {
					mustErr = true
				}
				continue
			}
			digits := true
			for _, c := range val {
				digits = vAnd(digits, vIn(c, '0', '9'))
			}
			var num uint64
			for _, c := range val {
				num = num*10 + uint64(c-'0')
			}
			inRange := vAnd(num >= 8, num <= 15)
			leadingZero := vAnd(vl >= 2, val[0] == '0')
			if vConcrete(vIte(vAnd(digits, vAnd(inRange, !leadingZero)), 1, 0)) == 1 {
				// plainly valid value
			} else if vConcrete(vIte(vAnd(digits, vAnd(inRange, leadingZero)), 1, 0)) == 1 {
				mayEither = true // leading zeros: left open
			} else {
				mustErr = true
			}
		}
	}
	var p Parameters
	err := p.Parse(opt)
	if mustErr {
		vAssert(err != nil, "malformed.rejected")
	} else if !mayEither {
		vAssert(err == nil, "malformed.wellformed_accepted")
	}
	// the negotiator reports the same error and accepts nothing
	e := Extension{}
	a, nerr := e.Negotiate(opt)
	vAssert((nerr != nil) == (err != nil), "malformed.negotiate_same_verdict")
	if nerr != nil {
		_, acc := e.Accepted()
		vAssert(vAnd(len(a.Name) == 0, !acc), "malformed.nothing_accepted_on_error")
	}
}
