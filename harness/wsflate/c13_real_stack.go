//go:build verif

package wsflate

import (
	"compress/flate"
	"io"

	"github.com/gobwas/ws"
	"github.com/gobwas/ws/wsutil"
)

// C13_real_stack: the documented writer stack (wsflate.Writer over the fragmenting writer with
// the message state) and reader stack (message reader, message state, wsflate.Reader), with the
// REAL compress/flate coder in stored mode: a compressed message of 0..3 (5) symbolic bytes,
// fragmented by a small frame buffer, masked on the client side, is read back identically;
// RSV1 is on the first frame only.
func C13_real_stack() {
	client := vChoose("side", 2) == 0
	st, peer := ws.StateServerSide, ws.StateClientSide
	if client {
		st, peer = peer, st
	}
	n := vChoose("n", 4+2*vTier())
	msg := vBytes("m", n)
	dst := &vRecW{}
	var ms MessageState
	ms.SetCompressed(true)
	bufLen := []int{3, 8, 64}[vChoose("buflen", 3)]
	w := wsutil.NewWriterSize(dst, st|ws.StateExtended, ws.OpBinary, bufLen)
	w.SetExtensions(&ms)
	fw := NewWriter(w, func(x io.Writer) Compressor { f, _ := flate.NewWriter(x, flate.NoCompression); return f })
	s := vChoose("split", n+1)
	fw.Write(msg[:s])
	fw.Write(msg[s:])
	vAssert(fw.Flush() == nil, "stack.flate_flush_ok")
	vAssert(w.Flush() == nil, "stack.frame_flush_ok")
	fs, ok := vParse(dst.all)
	vAssert(vAnd(ok, len(fs) >= 1), "stack.whole_frames")
	if !ok || len(fs) == 0 {
		return
	}
	for i, f := range fs {
		vAssert((f.rsv&4 != 0) == (i == 0), "stack.rsv1_on_first_frame_only")
		vAssert(f.masked == client, "stack.masked_iff_client")
		vAssert(vAnd(f.fin == (i == len(fs)-1), (f.op == 2) == (i == 0)), "stack.one_message")
	}
	if bufLen == 3 && n > 0 {
		vAssert(len(fs) >= 2, "stack.message_is_fragmented")
	}
	// the peer reads it back
	var rms MessageState
	src := &vBytesSrc{data: dst.all, one: vChoose("chunk", 2) == 1}
	rd := &wsutil.Reader{Source: src, State: peer | ws.StateExtended, Extensions: []wsutil.RecvExtension{&rms}}
	h, err := rd.NextFrame()
	vAssert(vAnd(err == nil, vAnd(h.Rsv == 0, rms.IsCompressed())), "stack.first_frame_compressed_header_clean")
	if err != nil {
		return
	}
	fr := NewReader(rd, func(x io.Reader) Decompressor { return flate.NewReader(x) })
	got, err := io.ReadAll(fr)
	vAssert(err == nil, "stack.read_ok")
	vAssert(vEqBytes(got, msg), "stack.roundtrip_identical")
	_, err = rd.NextFrame()
	vAssert(err == io.EOF, "stack.nothing_left")
}
