//go:build verif

package wsflate

// C18_extension_reset: the negotiator after Reset, from an ARBITRARY earlier state (any parsed
// offer left in it, accepted or not), next to a freshly constructed one with the same
// configuration: the same state, the same Accepted() report, and the same answer, report and
// state after negotiating an arbitrary further offer.
func C18_extension_reset() {
	cfg := vParams("cfg", false)
	e := Extension{Parameters: cfg}
	e.params = vParams("old", true)
	e.accepted = vBool("old.accepted")
	e.Reset()
	fresh := Extension{Parameters: cfg}
	vAssert(e == fresh, "extreset.state_as_new")
	p1, a1 := e.Accepted()
	p2, a2 := fresh.Accepted()
	vAssert(vAnd(p1 == p2, a1 == a2), "extreset.accepted_report_as_new")
	opt := vParams("off", true).Option()
	r1, err1 := e.Negotiate(opt)
	r2, err2 := fresh.Negotiate(opt)
	vAssert(vAnd((err1 == nil) == (err2 == nil), r1.Equal(r2)), "extreset.next_answer_as_new")
	p1, a1 = e.Accepted()
	p2, a2 = fresh.Accepted()
	vAssert(vAnd(p1 == p2, a1 == a2), "extreset.next_report_as_new")
	vAssert(e == fresh, "extreset.next_state_as_new")
}
