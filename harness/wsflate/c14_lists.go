//go:build verif

package wsflate

import (
	"github.com/gobwas/httphead"
)

// C14_lists: at most one offer of a list is accepted and it is the first acceptable one.
func C14_lists() {
	cfg := vParams("cfg", false)
	n := 2 + vTier()
	e := Extension{Parameters: cfg}
	firstOK := -1
	acceptedAt := -1
	var offers []Parameters
	for i := 0; i < n; i++ {
		off := Parameters{
			ServerNoContextTakeover: vChoose("off.snct", 2) == 1,
			ServerMaxWindowBits:     []WindowBits{0, 9, 15}[vChoose("off.sbits", 3)],
			ClientMaxWindowBits:     []WindowBits{0, 1, 12}[vChoose("off.cbits", 3)],
		}
		offers = append(offers, off)
		single := Extension{Parameters: cfg}
		a1, _ := single.Negotiate(off.Option())
		if len(a1.Name) != 0 && firstOK < 0 {
			firstOK = i
		}
		a, err := e.Negotiate(off.Option())
		vAssert(err == nil, "lists.no_error")
		if len(a.Name) != 0 {
			vAssert(acceptedAt < 0, "lists.at_most_one")
			acceptedAt = i
		}
	}
	vAssert(acceptedAt == firstOK, "lists.first_acceptable_wins")
	// what the negotiator reports as accepted is the accepted offer, whatever came after it
	got, ok := e.Accepted()
	vAssert(ok == (acceptedAt >= 0), "lists.accepted_flag")
	if acceptedAt >= 0 {
		vAssert(got == offers[acceptedAt], "lists.accepted_reports_the_accepted_offer")
	}
	// other extensions are never answered
	other := httphead.Option{Name: []byte("x-other")}
	fresh := Extension{Parameters: cfg}
	a, err := fresh.Negotiate(other)
	vAssert(vAnd(err == nil, len(a.Name) == 0), "lists.foreign_extension_ignored")
}
