//go:build verif

package wsflate

import (
	"io"
)

type vBadDecomp struct {
	r   io.Reader
	how int
}

func (d *vBadDecomp) Read(p []byte) (int, error) {
	switch d.how {
	case 0:
		return 0, io.ErrUnexpectedEOF
	case 1:
		return 0, io.EOF
	}
	if d.how == 3 {
		// an inflater inside a block that the payload cut short: it asks for byte after byte through
		// io.ByteReader (when the source offers it) and keeps asking a little after the first error
		if br, ok := d.r.(io.ByteReader); ok {
			errs := 0
			for i := 0; i < 40 && errs < 3; i++ {
				if _, err := br.ReadByte(); err != nil {
					errs++
				}
			}
			return 0, io.ErrUnexpectedEOF
		}
	}
	n, _ := d.r.Read(p)
	if n == 0 {
		return 0, io.EOF
	}
	return n, nil
}
