//go:build verif

package wsflate

import (
	"io"
)

type vBadDecomp struct {
	r   io.Reader
	how int
}

func (d *vBadDecomp) Read(p []byte) (int, error) {
	switch d.how {
	case 0:
		return 0, io.ErrUnexpectedEOF
	case 1:
		return 0, io.EOF
	}
	n, _ := d.r.Read(p)
	if n == 0 {
		return 0, io.EOF
	}
	return n, nil
}
