//go:build verif

package wsflate

import (
	"io"

	"github.com/gobwas/httphead"
	"github.com/gobwas/ws"
)

// C15_parameters_bytes: arbitrary bytes as permessage-deflate parameters through the real
// option scanner into Parse / Negotiate.
func C15_parameters_bytes() {
	hole := vBytes("h", 4+vTier())
	v := append([]byte("permessage-deflate; "), hole...)
	e := Extension{Parameters: DefaultParameters}
	index := -1
	var cur httphead.Option
	httphead.ScanOptions(v, func(i int, name, attr, val []byte) httphead.Control {
		if i != index {
			if index >= 0 {
				e.Negotiate(cur)
			}
			index = i
			cur = httphead.Option{Name: name}
		}
		if attr != nil {
			cur.Parameters.Set(attr, val)
		}
		return httphead.ControlContinue
	})
	if index >= 0 {
		e.Negotiate(cur)
		var p Parameters
		p.Parse(cur)
	}
	vAssert(true, "params.returned")
}

type vBadDecomp struct {
	r   io.Reader
	how int
}

func (d *vBadDecomp) Read(p []byte) (int, error) {
	switch d.how {
	case 0:
		return 0, io.ErrUnexpectedEOF
	case 1:
		return 0, io.EOF
	}
	n, _ := d.r.Read(p)
	if n == 0 {
		return 0, io.EOF
	}
	return n, nil
}

// C15_decompress_frame: DecompressFrame with any frame header and a misbehaving decompressor.
func C15_decompress_frame() {
	how := vChoose("how", 3)
	h := Helper{Decompressor: func(r io.Reader) Decompressor { return &vBadDecomp{r: r, how: how} }}
	f := ws.Frame{Header: vHdr(), Payload: vBytes("p", vChoose("n", 4))}
	h.DecompressFrame(f)
	vAssert(true, "decompress.returned")
}
