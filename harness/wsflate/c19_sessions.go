//go:build verif

package wsflate

import (
	"bytes"
	"sync"
)

// C19_sessions: independent sessions observe what they would observe running alone.  Under the
// engine one session of each kind runs with symbolic inputs while the monitors check the
// non-interference obligations (no store to package-level state after init; pooled buffers not
// used after Put, not Put twice).  Natively the same sessions additionally run from many
// goroutines at once (under the race detector) and must produce identical observations.
func C19_sessions() {
	vRandConcrete(true)
	tok := vBytes("tok", 2)
	for _, c := range tok {
		vAssume(vIn(c, 'a', 'z'))
	}
	payload := vBytes("p", 3)
	for _, c := range payload {
		vAssume(c < 0x80)
	}
	key := [4]byte{vU8("k0"), vU8("k1"), vU8("k2"), vU8("k3")}
	vSessProblems = 0
	// configuration shared by all sessions exists from here on and is only read by them
	vNewSharedConfig()
	vFreezeShared()
	wantS := vServerSession(tok, payload, key)
	wantC := vClientSession(payload)
	vAssert(vSessProblems == 0, "sessions.every_step_as_when_running_alone")
	// oracle for the sequential run
	late := append(append(append([]byte{}, tok...), tok...), "permessage-deflate="...)
	vAssert(vAnd(len(wantS) > len(late), vEqBytes(wantS[len(wantS)-len(late):], late)), "sessions.server_handshake_results_observed_late")
	vTraceBytes("clientobs", wantC)
	head := []byte("chat[permessage-deflate;client_max_window_bits]10|")
	vAssert(vAnd(len(wantC) >= len(head)+3, vEqBytes(wantC[:len(head)], head)), "sessions.client_handshake_offer_and_results")
	if len(wantC) >= len(head)+3 {
		vAssert(vEqBytes(wantC[len(head):len(head)+3], payload), "sessions.client_payload_on_wire")
	}
	// a second session through the same shared dialer observes exactly the same
	again := vClientSession(payload)
	vAssert(vEqBytes(again, wantC), "sessions.repeated_session_same_observation")
	againS := vServerSession(tok, payload, key)
	vAssert(vEqBytes(againS, wantS), "sessions.repeated_server_session_same_observation")
	vAssert(vSessProblems == 0, "sessions.every_step_as_when_running_alone")
	if vSymbolic() {
		return
	}
	// native: 16 goroutines x 20 rounds, mixed roles, other inputs in the other goroutines; the
	// shared configuration is fresh, so that its first use is concurrent too
	vNewSharedConfig()
	vNoPoison = true
	defer func() { vNoPoison = false }()
	start := make(chan struct{})
	var wg sync.WaitGroup
	bad := make([]bool, 16)
	for g := 0; g < 16; g++ {
		wg.Add(1)
		go func(g int) {
			defer wg.Done()
			<-start
			other := []byte{byte('a' + g), byte('z' - g)}
			op := append([]byte{}, payload...)
			op[0] ^= byte(g)
			op[0] &= 0x7f
			for r := 0; r < 20; r++ {
				if g%2 == 0 {
					if !bytes.Equal(vServerSession(tok, payload, key), wantS) || !bytes.Equal(vClientSession(payload), wantC) {
						bad[g] = true
					}
				} else {
					vServerSession(other, op, key)
					vClientSession(op)
				}
			}
		}(g)
	}
	close(start)
	wg.Wait()
	ok := true
	for _, b := range bad {
		ok = ok && !b
	}
	vAssert(ok, "sessions.concurrent_results_equal_sequential")
}
