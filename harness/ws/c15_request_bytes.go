//go:build verif

package ws

import (
	"github.com/gobwas/httphead"
)

// C15_request_bytes: arbitrary bytes in every part of an upgrade request.
func C15_request_bytes() {
	hole := vArb("h", 3+2*vTier())
	var req []byte
	switch vChoose("where", 6) {
	case 0: // the whole request line
		req = append(append([]byte{}, hole...), "\r\nHost: h\r\n\r\n"...)
	case 1: // inside the request line
		req = append(append([]byte("GET /"), hole...), " HTTP/1.1\r\nHost: h\r\n\r\n"...)
	case 2: // version token
		req = append(append([]byte("GET / HTTP/"), hole...), "\r\nHost: h\r\n\r\n"...)
	case 3: // header name
		req = append(append([]byte("GET / HTTP/1.1\r\n"), hole...), ": v\r\nHost: h\r\n\r\n"...)
	case 4: // Connection / protocol / extensions values
		which := []string{"Connection: ", "Sec-WebSocket-Protocol: ", "Sec-WebSocket-Extensions: ", "Sec-WebSocket-Key: ", "Upgrade: "}[vChoose("hdr", 5)]
		req = append(append([]byte("GET / HTTP/1.1\r\nHost: h\r\nUpgrade: websocket\r\n"+which), hole...), "\r\nSec-WebSocket-Version: 13\r\nSec-WebSocket-Key: dGhlIHNhbXBsZSBub25jZQ==\r\nConnection: Upgrade\r\n\r\n"...)
	case 5: // truncated anywhere
		full := []byte("GET / HTTP/1.1\r\nHost: h\r\nUpgrade: websocket\r\nConnection: Upgrade\r\nSec-WebSocket-Version: 13\r\nSec-WebSocket-Key: dGhlIHNhbXBsZSBub25jZQ==\r\n\r\n")
		req = full[:vChoose("cut", len(full))]
	}
	u := Upgrader{
		Protocol:  func(p []byte) bool { return len(p) == 1 },
		Negotiate: func(o httphead.Option) (httphead.Option, error) { return o, nil },
	}
	env := vChoose("env", 4) // one variation at a time
	if env == 1 {
		u.Negotiate = nil
		u.Extension = func(o httphead.Option) bool { return true }
	}
	conn := &vConn{in: req, one: env == 2}
	if env == 3 {
		u.ReadBufferSize = 16
	}
	_, err := u.Upgrade(conn)
	if len(req) < 20 {
		vAssert(err != nil, "request.garbage_is_error")
	}
	vAssert(true, "request.returned")
}
