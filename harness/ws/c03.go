//go:build verif

package ws

// C03_checkheader_exact: CheckHeader accepts exactly when no owned RFC 6455 rule is broken,
// and a rejection names a rule that is actually broken.
func C03_checkheader_exact() {
	h := vHeader()
	s := State(vU8("state"))
	vAssume(s <= 15)
	server := s&StateServerSide != 0
	client := s&StateClientSide != 0
	ext := s&StateExtended != 0
	frag := s&StateFragmented != 0
	op := byte(h.OpCode)
	reserved := vOr(vIn(op, 3, 7), vIn(op, 0xb, 0xf))
	control := op&8 != 0
	rOverflow := vAnd(control, h.Length > 125)
	rNotFinal := vAnd(control, !h.Fin)
	rRsv := vAnd(h.Rsv != 0, !ext)
	rMaskReq := vAnd(server, !h.Masked)
	rMaskUnexp := vAnd(client, h.Masked)
	rContExpected := vAnd(frag, vAnd(!control, op != 0))
	rContUnexpected := vAnd(!frag, op == 0)
	anyBroken := vOr(reserved, vOr(rOverflow, vOr(rNotFinal, vOr(rRsv, vOr(rMaskReq, vOr(rMaskUnexp, vOr(rContExpected, rContUnexpected)))))))
	err := CheckHeader(h, s)
	vAssert((err == nil) == !anyBroken, "check.accept_iff_valid")
	if err != nil {
		named := vIteBool(err == ErrProtocolOpCodeReserved, reserved,
			vIteBool(err == ErrProtocolControlPayloadOverflow, rOverflow,
				vIteBool(err == ErrProtocolControlNotFinal, rNotFinal,
					vIteBool(err == ErrProtocolNonZeroRsv, rRsv,
						vIteBool(err == ErrProtocolMaskRequired, rMaskReq,
							vIteBool(err == ErrProtocolMaskUnexpected, rMaskUnexp,
								vIteBool(err == ErrProtocolContinuationExpected, rContExpected,
									vIteBool(err == ErrProtocolContinuationUnexpected, rContUnexpected, false))))))))
		vAssert(named, "check.names_broken_rule")
		_, isProto := err.(ProtocolError)
		vAssert(isProto, "check.protocol_error_type")
	}
	// opcode predicates
	oc := h.OpCode
	vAssert(oc.IsControl() == control, "opcode.control")
	vAssert(oc.IsData() == !control, "opcode.data")
	vAssert(oc.IsReserved() == reserved, "opcode.reserved")
}

// C03_closecode_exact: CheckCloseFrameData over all 65536 codes and short reasons.
func C03_closecode_exact() {
	code := StatusCode(vU16("code"))
	maxM := 3
	if vTier() > 0 {
		maxM = 4
	}
	m := vChoose("m", maxM+1)
	reason := vBytes("r", m)
	err := CheckCloseFrameData(code, string(reason))
	c := uint16(code)
	codeOK := vOr(vAnd(c >= 1000, c <= 1003), vOr(vAnd(c >= 1007, c <= 1011), vAnd(c >= 3000, c <= 4999)))
	open := vOr(vAnd(c >= 1012, c <= 1014), c >= 5000) // left open by the property
	utfOK := vUTF8Valid(reason)
	vAssert(vImplies(vAnd(codeOK, utfOK), err == nil), "close.accepts_valid")
	vAssert(vImplies(vAnd(!codeOK, !open), err != nil), "close.rejects_bad_code")
	vAssert(vImplies(!utfOK, err != nil), "close.rejects_bad_utf8")
	// status-code predicates agree with their ranges
	vAssert(code.IsNotUsed() == (c <= 999), "code.notused")
	vAssert(code.IsProtocolSpec() == vAnd(c >= 1000, c <= 2999), "code.protocol")
	vAssert(code.IsApplicationSpec() == vAnd(c >= 3000, c <= 3999), "code.app")
	vAssert(code.IsPrivateSpec() == vAnd(c >= 4000, c <= 4999), "code.private")
	vAssert(code.Empty() == (c == 0), "code.empty")
}

// C03_closebody_roundtrip: bodies built by the library are <= 125 bytes and parse back.
func C03_closebody_roundtrip() {
	lens := []int{0, 1, 2, 3, 122, 123, 124, 125, 130}
	if vTier() > 0 {
		lens = nil
		for i := 0; i <= 130; i++ {
			lens = append(lens, i)
		}
	}
	n := lens[vChoose("n", len(lens))]
	code := StatusCode(vU16("code"))
	r := vBytes("r", n)
	body := NewCloseFrameBody(code, string(r))
	vAssert(len(body) <= 125, "body.max125")
	want := n
	if want > 123 {
		want = 123
	}
	vAssert(len(body) == 2+want, "body.len")
	c2, reason := ParseCloseFrameData(body)
	vAssert(c2 == code, "body.code")
	vAssert(vEqBytes([]byte(reason), r[:want]), "body.reason")
	c3, reason3 := ParseCloseFrameDataUnsafe(body)
	vAssert(vAnd(c3 == code, vEqStr(reason3, reason)), "body.unsafe_same")
	// short payloads parse as "no code"
	short := vBytes("s", vChoose("sl", 2))
	c4, r4 := ParseCloseFrameData(short)
	vAssert(vAnd(c4 == 0, len(r4) == 0), "body.short_nocode")
	c5, r5 := ParseCloseFrameDataUnsafe(short)
	vAssert(vAnd(c5 == 0, len(r5) == 0), "body.short_nocode_unsafe")
	vTraceBytes("body", body)
}
