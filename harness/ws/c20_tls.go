//go:build verif

package ws

import (
	"context"
	"crypto/tls"
	"time"
)

// Engine models of crypto/tls.Conn's I/O methods (the real bodies are cryptography the engine
// does not follow; natively the real ones run).  Contract used: the handshake is one Write (the
// client's hello) followed by a Read of the peer's answer on the transport, and ends with the
// transport's error if either fails; after it the connection passes I/O through; deadlines and
// Close go to the transport.  The C20 scenarios use it with peers that never answer the hello,
// for which the real implementation does exactly that.
var vTLSShaken bool

func vModel_crypto_tls_Conn_Handshake(c *tls.Conn) error {
	if vTLSShaken {
		return nil
	}
	nc := c.NetConn()
	if _, err := nc.Write([]byte{22, 3, 1, 0, 1, 1}); err != nil {
		return err
	}
	var b [5]byte
	if _, err := nc.Read(b[:]); err != nil {
		return err
	}
	vTLSShaken = true
	return nil
}

func vModel_crypto_tls_Conn_HandshakeContext(c *tls.Conn, ctx context.Context) error {
	return vModel_crypto_tls_Conn_Handshake(c)
}

func vModel_crypto_tls_Conn_Write(c *tls.Conn, p []byte) (int, error) {
	if err := vModel_crypto_tls_Conn_Handshake(c); err != nil {
		return 0, err
	}
	return c.NetConn().Write(p)
}

func vModel_crypto_tls_Conn_Read(c *tls.Conn, p []byte) (int, error) {
	if err := vModel_crypto_tls_Conn_Handshake(c); err != nil {
		return 0, err
	}
	return c.NetConn().Read(p)
}

func vModel_crypto_tls_Conn_Close(c *tls.Conn) error { return c.NetConn().Close() }
func vModel_crypto_tls_Conn_SetDeadline(c *tls.Conn, t time.Time) error {
	return c.NetConn().SetDeadline(t)
}
func vModel_crypto_tls_Conn_SetReadDeadline(c *tls.Conn, t time.Time) error {
	return c.NetConn().SetReadDeadline(t)
}
func vModel_crypto_tls_Conn_SetWriteDeadline(c *tls.Conn, t time.Time) error {
	return c.NetConn().SetWriteDeadline(t)
}
