//go:build verif

package ws

import (
	"bufio"
	"net"
	"net/http"

	"github.com/gobwas/httphead"
)

type vHijackRW struct {
	conn *vNetConn
	hdr  http.Header
}

func (w *vHijackRW) Header() http.Header         { return w.hdr }
func (w *vHijackRW) Write(p []byte) (int, error) { return w.conn.Write(p) }
func (w *vHijackRW) WriteHeader(code int)        {}
func (w *vHijackRW) Hijack() (net.Conn, *bufio.ReadWriter, error) {
	return w.conn, bufio.NewReadWriter(bufio.NewReader(w.conn), bufio.NewWriter(w.conn)), nil
}

// C09_http_upgrader: HTTPUpgrader.Upgrade on a constructed http.Request (net/http's own request
// parsing is outside reach) succeeds exactly for compliant requests and agrees with Upgrader.
func C09_http_upgrader() {
	key := vKeys[vChoose("key", 2)]
	r := &http.Request{Method: "GET", ProtoMajor: 1, ProtoMinor: 1, Host: "example.com", Header: http.Header{
		"Upgrade":                {"websocket"},
		"Connection":             {"Upgrade"},
		"Sec-Websocket-Version":  {"13"},
		"Sec-Websocket-Key":      {key},
		"Sec-Websocket-Protocol": {"a, bb", "c"},
	}}
	compliant, determinate := true, true
	wantStatus := 0
	negotiate := -1 // >= 0: a Negotiate callback objecting to the extension with this index
	switch vChoose("perturb", 18) {
	case 13: // any protocol version with small components
		mj, mn := int(vU8("major")), int(vU8("minor"))
		vAssume(vAnd(mj <= 3, mn <= 3))
		r.ProtoMajor, r.ProtoMinor = mj, mn
		if mj >= 2 {
			determinate = false // HTTP/2.x reaching HTTPUpgrader: left open
		}
		compliant = mj == 1 && mn >= 1
		if !compliant {
			wantStatus = 505
		}
	case 14: // any three-byte method
		m := vBytes("method", 3)
		r.Method = string(m)
		compliant = vConcrete(vIte(vEqBytes(m, []byte("GET")), 1, 0)) == 1
		wantStatus = 405
	case 15: // any version value of two or three bytes
		v := vBytes("ver", 2+vChoose("verlen", 2))
		for _, c := range v {
			vAssume(vAnd(c != ' ', c != '\t'))
		}
		r.Header["Sec-Websocket-Version"] = []string{string(v)}
		compliant = vConcrete(vIte(vEqBytes(v, []byte("13")), 1, 0)) == 1
		wantStatus = 426
	case 16: // extensions over two header lines, the Negotiate callback objecting to one of them
		r.Header["Sec-Websocket-Extensions"] = []string{"x-a; k=v, x-b", "x-c"}
		negotiate = vChoose("objectto", 4) // 3: objects to none
		compliant = negotiate == 3
		wantStatus = []int{403, -1}[vChoose("objectstatus", 2)] // -1: the rejection names no status
	case 17: // the upgrade token inside a longer Connection list, any letter case
		v := []byte("upgrade")
		for i := range v {
			if vBool("case") {
				v[i] ^= 0x20
			}
		}
		r.Header["Connection"] = []string{"keep-alive , " + string(v) + ",x"}
	case 0:
	case 1:
		r.Method = "POST"
		compliant, wantStatus = false, 405
	case 2:
		r.ProtoMinor = 0
		compliant, wantStatus = false, 505
	case 3:
		r.ProtoMajor, r.ProtoMinor = 2, 0
		determinate = false // HTTP/2.x reaching HTTPUpgrader: left open
	case 4:
		r.Host = ""
		compliant, wantStatus = false, 400
	case 5:
		delete(r.Header, "Upgrade")
		compliant, wantStatus = false, 400
	case 6:
		v := []byte("websocket")
		for i := range v {
			if vBool("case") {
				v[i] ^= 0x20
			}
		}
		r.Header["Upgrade"] = []string{string(v)}
	case 7:
		r.Header["Upgrade"] = []string{"websocketx"}
		compliant, wantStatus = false, 400
	case 8:
		r.Header["Connection"] = []string{"keep-alive, uPgrade"}
	case 9:
		r.Header["Connection"] = []string{"close"}
		compliant, wantStatus = false, 400
	case 10:
		r.Header["Sec-Websocket-Key"] = []string{key[:23]}
		compliant, wantStatus = false, 400
	case 11:
		r.Header["Sec-Websocket-Key"] = []string{key + "="}
		compliant, wantStatus = false, 400
	case 12:
		if vChoose("ver", 2) == 0 {
			r.Header["Sec-Websocket-Version"] = []string{"12"}
			wantStatus = 426
		} else {
			delete(r.Header, "Sec-Websocket-Version")
			wantStatus = 400
		}
		compliant = false
	}
	acc := [3]bool{vBool("acc.a"), vBool("acc.bb"), vBool("acc.c")}
	names := []string{"a", "bb", "c"}
	u := HTTPUpgrader{
		Protocol: func(p string) bool {
			for i, n := range names {
				if p == n {
					return acc[i]
				}
			}
			return false
		},
		Extension: func(o httphead.Option) bool { return true },
	}
	var negotiated []string
	if negotiate >= 0 {
		u.Negotiate = func(o httphead.Option) (httphead.Option, error) {
			if string(o.Name) == []string{"x-a", "x-b", "x-c", "-"}[negotiate] {
				if wantStatus == -1 {
					return httphead.Option{}, RejectConnectionError(RejectionReason("no"))
				}
				return httphead.Option{}, RejectConnectionError(RejectionStatus(403), RejectionReason("no"))
			}
			negotiated = append(negotiated, string(o.Name))
			return o.Copy(make([]byte, o.Size())), nil
		}
	}
	conn := &vNetConn{}
	w := &vHijackRW{conn: conn, hdr: http.Header{}}
	_, _, hs, err := u.Upgrade(r, w)
	if !determinate {
		return
	}
	vAssert((err == nil) == compliant, "http.success_iff_compliant")
	resp := vParseResp(conn.out)
	vAssert(resp.ok, "http.response_written")
	if !resp.ok {
		return
	}
	if err == nil {
		vAssert(resp.status == 101, "http.101")
		a, n := resp.get("Sec-WebSocket-Accept")
		vAssert(vAnd(n == 1, a == string(vAccept([]byte(key)))), "http.accept_is_sha1_of_key")
		want := ""
		found := false
		for i, nm := range names {
			if !found && vConcrete(vIte(acc[i], 1, 0)) == 1 {
				want, found = nm, true
			}
		}
		vAssert(hs.Protocol == want, "http.first_acceptable_protocol")
		sent, _ := resp.get("Sec-WebSocket-Protocol")
		vAssert(sent == want, "http.protocol_sent")
		if negotiate == 3 {
			vAssert(vAnd(len(negotiated) == 3, len(hs.Extensions) == 3), "http.every_offered_extension_negotiated")
		}
		return
	}
	vAssert(resp.status != 101, "http.no_101_on_failure")
	if wantStatus == -1 {
		vAssert(vAnd(resp.status >= 400, resp.status <= 599), "http.rejection_without_status_is_an_http_error")
	} else if wantStatus != 0 {
		vAssert(resp.status == wantStatus, "http.builtin_status")
	}
	cl, n := resp.get("Content-Length")
	l := 0
	for _, c := range []byte(cl) {
		l = l*10 + int(c-'0')
	}
	vAssert(vAnd(n == 1, l == len(resp.body)), "http.content_length_matches_body")
}
