//go:build verif

package ws

import (
	"net/url"
)

// C10_trailing_bytes: bytes the server sends right after the head stay readable once, in order.
func C10_trailing_bytes() {
	vRandConcrete(true)
	var d Dialer
	t := vChoose("t", 4)
	trailing := vBytes("trail", t)
	d.ReadBufferSize = []int{0, 256}[vChoose("rbuf", 2)]
	srv := &vServer{}
	var headLen int
	srv.resp = func(key []byte) []byte {
		b := []byte("HTTP/1.1 101 Switching Protocols\r\nUpgrade: websocket\r\nConnection: Upgrade\r\nSec-WebSocket-Accept: " + string(vAccept(key)) + "\r\n\r\n")
		headLen = len(b)
		return append(b, trailing...)
	}
	// delivery: everything at once / head then trailing / head+1 byte then rest
	switch vChoose("delivery", 3) {
	case 1:
		srv.chunks = []int{129}
	case 2:
		srv.chunks = []int{130}
	}
	u := &url.URL{Scheme: "ws", Host: "example.com", Path: "/"}
	br, _, err := d.Upgrade(srv, u)
	vAssert(err == nil, "trail.ok")
	if err != nil {
		return
	}
	_ = headLen
	var got []byte
	if br != nil {
		n := br.Buffered()
		vAssert(n > 0, "trail.reader_only_if_buffered")
		p, _ := br.Peek(n)
		got = append(got, p...)
		br.Discard(n)
		PutReader(br)
	}
	buf := make([]byte, 8)
	for i := 0; i < 8; i++ {
		n, err := srv.Read(buf)
		got = append(got, buf[:n]...)
		if err != nil {
			break
		}
	}
	vAssert(vEqBytes(got, trailing), "trail.every_byte_once_in_order")
}
