//go:build verif

package ws

import (
	"bytes"
	"context"
	"io"
	"net"
	"sync"
	"time"
)

// vCutDialConn: a connection whose peer's (otherwise perfectly valid) handshake response is cut
// after `cut` bytes, or whose request write fails; the transport error is one of EOF, closed
// pipe, or a timeout-kind net.Error raised by the connection itself (its own idle timeout — no
// deadline set by Dial has passed).
type vCutDialConn struct {
	mu        sync.Mutex
	wrote     []byte
	resp      []byte
	pos, cut  int
	errKind   int
	failWrite bool
	closed    bool
}

func (c *vCutDialConn) fail() error {
	switch c.errKind {
	case 0:
		return io.EOF
	case 1:
		return io.ErrClosedPipe
	}
	return vTimeoutErr{}
}

func (c *vCutDialConn) Read(p []byte) (int, error) {
	c.mu.Lock()
	defer c.mu.Unlock()
	if c.resp == nil {
		i := bytes.Index(c.wrote, []byte("Sec-WebSocket-Key: "))
		key := c.wrote[i+19 : i+19+24]
		c.resp = []byte("HTTP/1.1 101 Switching Protocols\r\nUpgrade: websocket\r\nConnection: Upgrade\r\nSec-WebSocket-Accept: " + string(vAccept(key)) + "\r\n\r\n")
		if c.cut < 0 {
			c.cut += len(c.resp)
		}
	}
	if c.pos >= c.cut {
		return 0, c.fail()
	}
	n := copy(p, c.resp[c.pos:c.cut])
	c.pos += n
	return n, nil
}

func (c *vCutDialConn) Write(p []byte) (int, error) {
	c.mu.Lock()
	defer c.mu.Unlock()
	if c.failWrite {
		return 0, c.fail()
	}
	c.wrote = append(c.wrote, p...)
	return len(p), nil
}
func (c *vCutDialConn) SetDeadline(t time.Time) error      { return nil }
func (c *vCutDialConn) SetReadDeadline(t time.Time) error  { return nil }
func (c *vCutDialConn) SetWriteDeadline(t time.Time) error { return nil }
func (c *vCutDialConn) Close() error {
	c.mu.Lock()
	c.closed = true
	c.mu.Unlock()
	return nil
}
func (c *vCutDialConn) LocalAddr() net.Addr  { return vStubAddr{} }
func (c *vCutDialConn) RemoteAddr() net.Addr { return vStubAddr{} }

// C16_dial_cut: Dialer.Dial — through its context plumbing, not only Dialer.Upgrade — reports an
// error when the handshake is cut: the response ends at any of a set of offsets or the request
// write fails, with EOF / closed pipe / a timeout-kind transport error, under a background
// context, a live cancellable context or a context with a far-off deadline, with and without a
// (far-off) dial timeout.  Nothing ends the context: the only failure is the transport's.
func C16_dial_cut() {
	vRandConcrete(true)
	vClock, vTimers, vTheConn = 0, nil, nil
	vRealStart = time.Now()
	ctxKind := vChoose("ctx", 3)
	var ctx context.Context = context.Background()
	var root *vCtx
	if ctxKind != 0 {
		root = vNewCtx()
		ctx = root
		if ctxKind == 2 {
			root.setDeadline(vTimeAt(100000 * vUnit()))
		}
	}
	timeout := int64(0)
	if vBool("hastimeout") {
		timeout = 50000
	}
	conn := &vCutDialConn{errKind: vChoose("errkind", 3)}
	where := vChoose("where", 9)
	if where == 8 {
		conn.failWrite = true
	} else {
		// 0, inside the status line, after it, inside / after a header line, the last two bytes missing
		conn.cut = []int{0, 1, 12, 34, 50, 55, -2, -1}[where]
	}
	d := Dialer{Timeout: time.Duration(timeout * vUnit()), NetDial: func(dctx context.Context, network, addr string) (net.Conn, error) {
		return conn, nil
	}}
	var err error
	var br interface{}
	ok := vCallBounded("dialcut.returns", func() {
		var b interface{ Buffered() int }
		_, b0, _, e := d.Dial(ctx, "ws://example.com/")
		if b0 != nil {
			b = b0
		}
		br, err = b, e
	}, func() {
		if root != nil {
			root.cancel(context.Canceled)
		}
	})
	if !ok {
		return
	}
	vAssert(err != nil, "dialcut.cut_handshake_is_an_error")
	vAssert(br == nil, "dialcut.no_reader_for_cut_handshake")
	conn.mu.Lock()
	closed := conn.closed
	conn.mu.Unlock()
	vAssert(closed, "dialcut.failed_dial_closes_conn")
	// (natively a leftover watcher is not observable here; C20 looks at that)
	vAssert(!vSymbolic() || vThreads() == 1, "dialcut.watcher_finished_at_return")
	if root != nil {
		vAssert(root.Err() == nil, "dialcut.context_untouched")
	}
}
