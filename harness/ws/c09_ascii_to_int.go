//go:build verif

package ws

// C09_ascii_to_int: asciiToInt returns the decimal value iff every byte is an ASCII digit.
func C09_ascii_to_int() {
	n := 1 + vChoose("n", 3+vTier())
	b := vBytes("b", n)
	v, err := asciiToInt(b)
	digits := true
	var want uint64
	for _, c := range b {
		digits = vAnd(digits, vIn(c, '0', '9'))
		want = want*10 + uint64(c-'0')
	}
	vAssert((err == nil) == digits, "atoi.ok_iff_all_digits")
	if err == nil {
		vAssert(uint64(v) == want, "atoi.value")
	}
	_, err = asciiToInt(nil)
	vAssert(err != nil, "atoi.empty_is_error")
}
