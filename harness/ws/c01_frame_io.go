//go:build verif

package ws

// C01_frame_io: ReadFrame/WriteFrame/CompileFrame = header codec + exactly Length payload bytes.
func C01_frame_io() {
	lens := []int{0, 1, 2, 3, 4, 5, 7, 8, 9, 120, 121, 122, 123, 124, 125, 126, 127, 128}
	if vTier() > 0 {
		lens = nil
		for i := 0; i <= 140; i++ {
			lens = append(lens, i)
		}
		lens = append(lens, 65535, 65536, 65537)
	}
	L := lens[vChoose("L", len(lens))]
	var h Header
	h.Fin = vBool("fin")
	h.Rsv = vU8("rsv")
	h.OpCode = OpCode(vU8("op"))
	h.Masked = vBool("masked")
	h.Mask = [4]byte{vU8("m0"), vU8("m1"), vU8("m2"), vU8("m3")}
	vAssume(h.Rsv <= 7)
	vAssume(h.OpCode <= 15)
	h.Length = int64(L)
	var payload []byte
	if L <= 127 {
		payload = vBytes("p", L)
	} else {
		payload = make([]byte, L)
		payload[0], payload[L-1] = vU8("p0"), vU8("pl")
	}
	f := Frame{Header: h, Payload: payload}
	w := &vRec{}
	err := WriteFrame(w, f)
	vAssert(err == nil, "io.write.noerr")
	hw := &vRec{}
	WriteHeader(hw, h)
	hs := len(hw.b)
	vAssert(len(w.b) == hs+L, "io.write.size")
	if len(w.b) != hs+L {
		return
	}
	vAssert(vEqBytes(w.b[:hs], hw.b), "io.write.header")
	vAssert(vEqBytes(w.b[hs:], payload), "io.write.payload")
	c, err := CompileFrame(f)
	vAssert(err == nil, "io.compile.noerr")
	vAssert(vEqBytes(c, w.b), "io.compile.same")
	// read back, followed by two extra bytes which must stay unread
	extra := vBytes("x", 2)
	src := &vSrc{data: append(append([]byte{}, w.b...), extra...), name: "chunk", whole: L > 3}
	g, err := ReadFrame(src)
	vAssert(err == nil, "io.read.noerr")
	vAssert(vHeaderEq(h, g.Header), "io.read.header")
	vAssert(len(g.Payload) == L, "io.read.len")
	if len(g.Payload) == L {
		vAssert(vEqBytes(g.Payload, payload), "io.read.payload")
	}
	vAssert(src.pos == hs+L, "io.read.consumed")
	// ... and never fewer: the same bytes with the last 1, 2 or all payload bytes missing are not
	// a frame (a Frame whose payload is shorter than its Length must not come back as a success)
	if L > 0 {
		miss := []int{1, 2, L}[vChoose("missing", 3)]
		if miss <= L {
			short := &vSrc{data: append([]byte{}, w.b[:hs+L-miss]...), name: "chunk2", whole: true}
			g2, err2 := ReadFrame(short)
			vAssert(vOr(err2 != nil, int64(len(g2.Payload)) == g2.Header.Length), "io.read.success_means_length_payload_bytes")
			vAssert(err2 != nil, "io.read.short_stream_is_error")
		}
	}
	vTrace("total", uint64(len(w.b)))
}
