//go:build verif

package ws

import (
	"net/url"

	"github.com/gobwas/httphead"
)

// C15_response_bytes: arbitrary bytes in every part of an upgrade response.
func C15_response_bytes() {
	vRandConcrete(true)
	hole := vArb("h", 3+2*vTier())
	srv := &vServer{}
	where := vChoose("where", 7)
	which := 0
	if where == 2 {
		which = vChoose("hdr", 4)
	}
	cut := 0
	if where == 4 {
		cut = vChoose("cut", 40)
	}
	// 5, 6: an accept value of exactly the expected length (28) -- all 'A's or the genuine one --
	// with the arbitrary bytes at its start, in the middle or at its end (where the padding is)
	accPos := 0
	if where >= 5 {
		accPos = []int{0, 13, 28 - len(hole)}[vChoose("accpos", 3)]
	}

	srv.resp = func(key []byte) []byte {
		ok := "HTTP/1.1 101 Switching Protocols\r\nUpgrade: websocket\r\nConnection: Upgrade\r\nSec-WebSocket-Accept: " + string(vAccept(key)) + "\r\n"
		switch where {
		case 0:
			return append(append([]byte{}, hole...), "\r\n\r\n"...)
		case 1:
			return append(append([]byte("HTTP/1.1 "), hole...), " x\r\n\r\n"...)
		case 2:
			h := []string{"Sec-WebSocket-Protocol: ", "Sec-WebSocket-Extensions: ", "Sec-WebSocket-Accept: ", ""}[which]
			return append(append([]byte(ok+h), hole...), "\r\n\r\n"...)
		case 3:
			return append(append([]byte("HTTP/"), hole...), " 101 x\r\n\r\n"...)
		case 5, 6:
			v := []byte("AAAAAAAAAAAAAAAAAAAAAAAAAAAA")
			if where == 6 {
				v = append([]byte{}, vAccept(key)...)
			}
			copy(v[accPos:], hole)
			b := []byte("HTTP/1.1 101 Switching Protocols\r\nUpgrade: websocket\r\nConnection: Upgrade\r\nSec-WebSocket-Accept: ")
			return append(append(b, v...), "\r\n\r\n"...)
		}
		b := []byte(ok + "\r\n")
		if cut < len(b) {
			b = b[:len(b)-cut]
		}
		return b
	}
	d := Dialer{Protocols: []string{"a"}, Extensions: []httphead.Option{httphead.NewOption("a", nil)}}
	if vChoose("rbuf", 2) == 1 {
		d.ReadBufferSize = 16
		srv.chunks = []int{1, 1, 1, 1, 1, 1, 1, 1, 1, 1, 1, 1, 1, 1, 1, 1, 1, 1, 1, 1, 1, 1, 1, 1}
	}
	br, _, err := d.Upgrade(srv, &url.URL{Scheme: "ws", Host: "h", Path: "/"})
	if err != nil {
		vAssert(br == nil, "response.no_reader_on_error")
	}
	vAssert(true, "response.returned")
}
