//go:build verif

package ws

import (
	"net/url"

	"github.com/gobwas/httphead"
)

// C10_response_template: the dialer succeeds exactly for a valid 101 answer.
func C10_response_template() {
	vRandConcrete(true)
	var d Dialer
	d.Protocols = []string{"chat", "superchat"}
	d.Extensions = []httphead.Option{httphead.NewOption("permessage-deflate", map[string]string{"client_max_window_bits": "10"}), httphead.NewOption("x-ext", nil)}
	wantExtParams := ""
	version := []byte("HTTP/1.1")
	status := []byte("101")
	upgrade := "Upgrade: websocket"
	connection := "Connection: Upgrade"
	var acceptMut func(a []byte) []byte
	var extra []string
	valid := true
	determinate := true
	wantProto := ""
	wantExt := 0
	dropAccept := false
	env := vChoose("env", 5)
	reason := []byte("Switching Protocols")
	perturb := vChoose("perturb", 10)
	switch perturb {
	case 0:
	case 9: // the reason phrase is free text (RFC 7230 §3.1.2): empty, short, padded, or two arbitrary bytes
		switch vChoose("reason", 4) {
		case 0:
			reason = nil // the line ends with the SP after the status code
		case 1:
			reason = []byte("OK")
		case 2:
			reason = []byte(" Switching  Protocols \t")
		case 3:
			reason = vBytes("reason", 2)
			for _, c := range reason {
				vAssume(vAnd(c != '\r', c != '\n'))
			}
		}
	case 1: // version digits
		d1, d2 := vU8("vmaj"), vU8("vmin")
		vAssume(vAnd(d1 != ' ', vAnd(d1 != '\r', vAnd(d1 != '\n', d1 != '.'))))
		vAssume(vAnd(d2 != ' ', vAnd(d2 != '\r', vAnd(d2 != '\n', d2 != '.'))))
		version = []byte{'H', 'T', 'T', 'P', '/', d1, '.', d2}
		valid = vConcrete(vIte(vAnd(d1 == '1', vIn(d2, '1', '9')), 1, 0)) == 1
	case 2: // status token: three arbitrary bytes
		status = vBytes("status", 3)
		for _, c := range status {
			vAssume(vAnd(c != ' ', vAnd(c != '\r', c != '\n')))
		}
		valid = vConcrete(vIte(vEqBytes(status, []byte("101")), 1, 0)) == 1
	case 3: // status token of other lengths
		status = [][]byte{[]byte("1010"), []byte("0101"), []byte("10"), []byte("200")}[vChoose("statuslen", 4)]
		valid = false
		if string(status) == "0101" {
			determinate = false // leading zero: numerically 101, left open
		}
	case 4: // Upgrade
		switch vChoose("upgrade", 5) {
		case 0:
			upgrade = ""
			valid = false
		case 1:
			upgrade = "upgrade: WebSocket"
		case 3: // optional white space is SP or HTAB (RFC 7230), in any mix
			upgrade = "Upgrade:\twebsocket \t"
		case 4: // one arbitrary byte of white-space-like kind next to the value: only SP and HTAB are ignored
			c := vU8("wsbyte")
			vAssume(vOr(c == ' ', vOr(c == '\t', vOr(c == 0x0b, vOr(c == 0x0c, c == 0xa0)))))
			upgrade = "Upgrade: websocket" + string([]byte{c})
			valid = vConcrete(vIte(vOr(c == ' ', c == '\t'), 1, 0)) == 1
		case 2:
			upgrade = "Upgrade: websockets"
			valid = false
		}
	case 5: // Connection
		switch vChoose("connection", 4) {
		case 0:
			connection = ""
			valid = false
		case 1:
			connection = "CONNECTION:  upgrade "
		case 3:
			connection = "Connection: \tUpgrade\t "
		case 2:
			connection = "Connection: close"
			valid = false
		}
	case 6: // accept value
		switch vChoose("accept", 4) {
		case 0:
			dropAccept = true
			valid = false
		case 1: // one arbitrary byte at an arbitrary place
			i := vChoose("pos", 28)
			c := vU8("c")
			vAssume(vAnd(c != '\r', vAnd(c != '\n', vAnd(c != ' ', c != '\t'))))
			acceptMut = func(a []byte) []byte {
				same := vConcrete(vIte(a[i] == c, 1, 0)) == 1
				valid = same
				a[i] = c
				return a
			}
		case 2:
			acceptMut = func(a []byte) []byte { return a[:27] }
			valid = false
		case 3:
			acceptMut = func(a []byte) []byte { return append(a, '=') }
			valid = false
		}
	case 7: // subprotocol
		switch vChoose("proto", 6) {
		case 3: // a list is not "one it requested", whatever it contains
			extra = append(extra, "Sec-WebSocket-Protocol: "+[]string{"other, chat", "chat, other", "chat,superchat", "chat, chat"}[vChoose("protolist", 4)])
			valid = false
		case 4: // one arbitrary byte of a requested name replaced
			v := []byte("superchat")
			i := vChoose("protopos", len(v))
			c := vU8("protobyte")
			vAssume(vAnd(c != '\r', vAnd(c != '\n', vAnd(c != ' ', c != '\t'))))
			valid = vConcrete(vIte(c == v[i], 1, 0)) == 1
			v[i] = c
			extra = append(extra, "Sec-WebSocket-Protocol: "+string(v))
			wantProto = "superchat"
		case 5: // sent twice
			extra = append(extra, "Sec-WebSocket-Protocol: chat", "Sec-WebSocket-Protocol: superchat")
			determinate = false // two subprotocol headers: left open by the property
		case 0:
			extra = append(extra, "Sec-WebSocket-Protocol: superchat")
			wantProto = "superchat"
		case 1:
			extra = append(extra, "Sec-WebSocket-Protocol: other")
			valid = false
		case 2:
			extra = append(extra, "sec-websocket-protocol: chat")
			wantProto = "chat"
		}
	case 8: // extensions
		switch vChoose("ext", 8) {
		case 7: // the accepted extensions spread over two header lines (RFC 6455 §9.1 allows it): both are returned
			extra = append(extra, "Sec-WebSocket-Extensions: x-ext", "Sec-WebSocket-Extensions: permessage-deflate; server_no_context_takeover")
			wantExt = 2
		case 0:
			extra = append(extra, "Sec-WebSocket-Extensions: permessage-deflate; server_no_context_takeover")
			wantExt = 1
			wantExtParams = "server_no_context_takeover="
		case 3: // the server accepts the offered extension WITHOUT the parameters the client offered
			extra = append(extra, "Sec-WebSocket-Extensions: permessage-deflate")
			wantExt = 1
			wantExtParams = "-"
		case 1:
			extra = append(extra, "Sec-WebSocket-Extensions: x-ext, x-unknown")
			valid = false
		case 4: // the extension that was not offered comes FIRST in the list
			extra = append(extra, "Sec-WebSocket-Extensions: x-unknown, x-ext")
			valid = false
		case 5: // two offered extensions in one list: both are returned, in the server's order
			extra = append(extra, "Sec-WebSocket-Extensions: x-ext, permessage-deflate; server_no_context_takeover")
			wantExt = 2
		case 6: // the same offered name twice, with different parameters: two extensions
			extra = append(extra, "Sec-WebSocket-Extensions: x-ext; a=1, x-ext; b=2")
			wantExt = 2
		case 2:
			extra = append(extra, "Sec-WebSocket-Extensions: x-ext", "X-Other: 1")
			wantExt = 1
		}
	}
	// the same against a dialer that asked for nothing (the zero Dialer, ws.Dial): then every
	// subprotocol and every extension in the response is one it did not request
	if vChoose("bare", 2) == 1 {
		d.Protocols, d.Extensions = nil, nil
		if perturb == 7 || perturb == 8 {
			valid, wantProto, wantExt, wantExtParams = false, "", 0, ""
		}
	}
	srv := &vServer{}
	srv.resp = func(key []byte) []byte {
		var b []byte
		b = append(b, version...)
		b = append(b, ' ')
		b = append(b, status...)
		b = append(b, ' ')
		b = append(b, reason...)
		b = append(b, "\r\n"...)
		acc := vAccept(key)
		if acceptMut != nil {
			acc = acceptMut(acc)
		}
		lines := []string{upgrade, connection}
		if !dropAccept {
			lines = append(lines, "Sec-WebSocket-Accept: "+string(acc))
		}
		lines = append(lines, extra...)
		if env == 4 {
			lines = append(lines, "X-Pad: pppppppppppppppppppppppppppppppppppppppppppppppppppppppppppppppppppppppppppppppppppppppppppppppppppppppppppppppppppppppppppppppppppppppppppppppppppppp")
		}
		if env == 1 { // reversed header order
			for i, j := 0, len(lines)-1; i < j; i, j = i+1, j-1 {
				lines[i], lines[j] = lines[j], lines[i]
			}
		}
		for _, l := range lines {
			if l == "" {
				continue
			}
			b = append(b, l...)
			b = append(b, "\r\n"...)
		}
		return append(b, "\r\n"...)
	}
	if env == 2 {
		srv.chunks = []int{1, 1, 1, 1, 1, 1, 1, 1, 1, 1, 1, 1, 1, 1, 1, 1, 1, 1, 1, 1}
	}
	if env == 3 {
		d.ReadBufferSize = 256
	}
	if env == 4 { // the head arrives line by line and ends with a long header line: every buffer
		// refill slides over bytes parsed earlier
		srv.lines = true
	}
	u := &url.URL{Scheme: "ws", Host: "example.com", Path: "/"}
	br, hs, err := d.Upgrade(srv, u)
	if !determinate {
		return
	}
	vAssert((err == nil) == valid, "resp.success_iff_valid_101")
	if err != nil {
		vAssert(br == nil, "resp.no_reader_on_error")
		return
	}
	vAssert(hs.Protocol == wantProto, "resp.protocol_is_servers")
	vAssert(len(hs.Extensions) == wantExt, "resp.extensions_are_servers")
	if wantExt == 2 && len(hs.Extensions) == 2 {
		a, b := string(hs.Extensions[0].Name), string(hs.Extensions[1].Name)
		vAssert(vOr(vAnd(a == "x-ext", vOr(b == "permessage-deflate", b == "x-ext")), vAnd(a == "permessage-deflate", b == "x-ext")), "resp.both_extensions_returned")
	}
	if wantExtParams != "" && len(hs.Extensions) == 1 {
		got := ""
		hs.Extensions[0].Parameters.ForEach(func(k, v []byte) bool { got += string(k) + "=" + string(v); return true })
		if wantExtParams == "-" {
			vAssert(got == "", "resp.extension_parameters_are_servers_not_the_offer")
		} else {
			vAssert(got == wantExtParams, "resp.extension_parameters_are_servers")
		}
	}
	vAssert(br == nil, "resp.nothing_buffered_no_reader")
	// whatever the server answered, the next request through the same Dialer is the configured
	// one again: identical to the first but for the random key
	srv2 := &vServer{resp: srv.resp}
	d.Upgrade(srv2, u)
	vAssert(vEqBytes(vBlankKey(srv.out), vBlankKey(srv2.out)), "resp.next_request_as_configured")
}

// vBlankKey returns a copy of a request with the 24 key characters replaced.
func vBlankKey(req []byte) []byte {
	out := append([]byte{}, req...)
	for i := 0; i+19+24 <= len(out); i++ {
		if string(out[i:i+19]) == "Sec-WebSocket-Key: " {
			for j := 0; j < 24; j++ {
				out[i+19+j] = 'K'
			}
			break
		}
	}
	return out
}
