//go:build verif

package ws

func vKey(i int, off uint64) int { return int((off%4 + uint64(i%4)) % 4) }
