//go:build verif

package ws

// C02_cipher_pointwise: Cipher is the RFC 6455 §5.3 XOR for any payload, key and
// non-negative offset; no panic.
func C02_cipher_pointwise() {
	maxN := 40
	if vTier() > 0 {
		maxN = 130
	}
	n := vChoose("n", maxN+1)
	p := vBytes("p", n)
	orig := make([]byte, n)
	copy(orig, p)
	key := [4]byte{vU8("k0"), vU8("k1"), vU8("k2"), vU8("k3")}
	off := vInt("offset")
	vAssume(off >= 0)
	Cipher(p, key, off)
	om := byte(uint64(off) % 4) // overflow-free reference index
	ok := true
	for i := 0; i < n; i++ {
		ki := (om + byte(i%4)) % 4
		ok = vAnd(ok, p[i] == orig[i]^key[ki])
	}
	vAssert(ok, "cipher.xor")
	vTraceBytes("out", p)
}

func vKey(i int, off uint64) int { return int((off%4 + uint64(i%4)) % 4) }

// C02_chunks: processing a payload as two consecutive chunks with a running offset
// equals one call; applying Cipher twice restores the input.
func C02_chunks() {
	maxN := 20
	if vTier() > 0 {
		maxN = 40
	}
	n := vChoose("n", maxN+1)
	k := vChoose("k", n+1)
	p := vBytes("p", n)
	a := append([]byte{}, p...)
	b := append([]byte{}, p...)
	key := [4]byte{vU8("k0"), vU8("k1"), vU8("k2"), vU8("k3")}
	off := vInt("offset")
	vAssume(off >= 0)
	vAssume(off <= 1<<62) // off+k must not overflow: a running stream offset
	Cipher(a, key, off)
	Cipher(b[:k], key, off)
	Cipher(b[k:], key, off+k)
	vAssert(vEqBytes(a, b), "chunks.same")
	Cipher(a, key, off)
	vAssert(vEqBytes(a, p), "chunks.involution")
	vTraceBytes("b", b)
}

// C02_frame_helpers: Mask/Unmask helpers; copying variants leave the caller's bytes intact.
func C02_frame_helpers() {
	n := vChoose("n", 10)
	p := vBytes("p", n)
	orig := append([]byte{}, p...)
	key := [4]byte{vU8("k0"), vU8("k1"), vU8("k2"), vU8("k3")}
	var h Header
	h.Fin = vBool("fin")
	h.OpCode = OpCode(vU8("op"))
	h.Length = int64(n)
	h.Masked = vBool("premasked")
	h.Mask = [4]byte{vU8("o0"), vU8("o1"), vU8("o2"), vU8("o3")}
	f := Frame{Header: h, Payload: p}
	xor := func(in []byte, k [4]byte) []byte {
		out := make([]byte, len(in))
		for i := range in {
			out[i] = in[i] ^ k[i%4]
		}
		return out
	}
	switch vChoose("fn", 6) {
	case 0: // MaskFrameWith copies
		g := MaskFrameWith(f, key)
		vAssert(vEqBytes(p, orig), "helpers.maskwith.caller_intact")
		vAssert(vEqBytes(g.Payload, xor(orig, key)), "helpers.maskwith.xor")
		vAssert(vAnd(g.Header.Masked, g.Header.Mask == key), "helpers.maskwith.header")
		vAssert(!vSameMem(g.Payload, p), "helpers.maskwith.noalias")
		vAssert(vAnd(g.Header.Fin == h.Fin, vAnd(g.Header.OpCode == h.OpCode, g.Header.Length == h.Length)), "helpers.maskwith.rest")
	case 1: // MaskFrame copies, random key reported in header
		g := MaskFrame(f)
		vAssert(vEqBytes(p, orig), "helpers.mask.caller_intact")
		vAssert(g.Header.Masked, "helpers.mask.header")
		vAssert(vEqBytes(g.Payload, xor(orig, g.Header.Mask)), "helpers.mask.xor")
	case 2: // MaskFrameInPlaceWith aliases
		g := MaskFrameInPlaceWith(f, key)
		vAssert(vEqBytes(p, xor(orig, key)), "helpers.inplacewith.xor")
		vAssert(vOr(n == 0, vSameMem(g.Payload, p)), "helpers.inplacewith.alias")
		vAssert(vAnd(g.Header.Masked, g.Header.Mask == key), "helpers.inplacewith.header")
	case 3: // MaskFrameInPlace
		g := MaskFrameInPlace(f)
		vAssert(g.Header.Masked, "helpers.inplace.header")
		vAssert(vEqBytes(p, xor(orig, g.Header.Mask)), "helpers.inplace.xor")
	case 4: // UnmaskFrame copies
		g := UnmaskFrame(f)
		vAssert(vEqBytes(p, orig), "helpers.unmask.caller_intact")
		vAssert(vEqBytes(g.Payload, xor(orig, h.Mask)), "helpers.unmask.xor")
		vAssert(vAnd(!g.Header.Masked, g.Header.Mask == [4]byte{}), "helpers.unmask.header")
		vAssert(!vSameMem(g.Payload, p), "helpers.unmask.noalias")
	case 5: // UnmaskFrameInPlace
		g := UnmaskFrameInPlace(f)
		vAssert(vEqBytes(p, xor(orig, h.Mask)), "helpers.unmaskinplace.xor")
		vAssert(vAnd(!g.Header.Masked, g.Header.Mask == [4]byte{}), "helpers.unmaskinplace.header")
	}
}
