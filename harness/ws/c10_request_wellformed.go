//go:build verif

package ws

import (
	"bytes"
	"io"
	"net/url"

	"github.com/gobwas/httphead"
)

// C10_request_wellformed: the upgrade request is a well-formed GET with every mandatory header
// exactly once, a key that is base64 of 16 bytes, and the configured lists.
func C10_request_wellformed() {
	var d Dialer
	u := &url.URL{Scheme: "ws", Host: "example.com:8080", Path: "/chat", RawQuery: "x=1"}
	wantURI := "/chat?x=1"
	switch vChoose("url", 6) {
	case 3: // a path that needs escaping: the request-URI carries the escaped form
		u = &url.URL{Scheme: "ws", Host: "h", Path: "/chat room/x", RawQuery: "q=a%20b"}
		wantURI = "/chat%20room/x?q=a%20b"
	case 4: // an explicit raw path whose escaping differs from the default one
		u = &url.URL{Scheme: "ws", Host: "h", Path: "/a/b/c?d", RawPath: "/a%2Fb/c%3Fd"}
		wantURI = "/a%2Fb/c%3Fd"
	case 5: // opaque form and a bare '?'
		u = &url.URL{Scheme: "ws", Host: "h", Path: "/p", ForceQuery: true}
		wantURI = "/p?"
	case 1:
		u = &url.URL{Scheme: "wss", Host: "[::1]", Path: "/"}
		wantURI = "/"
	case 2:
		u = &url.URL{Scheme: "ws", Host: "h", Path: ""}
		wantURI = "/"
	}
	wantHost := u.Host
	if vChoose("hostoverride", 2) == 1 {
		d.Host = "override.example"
		wantHost = d.Host
	}
	np := vChoose("protocols", 3)
	d.Protocols = []string{"chat", "superchat"}[:np]
	nx := vChoose("extensions", 3)
	d.Extensions = []httphead.Option{
		httphead.NewOption("permessage-deflate", map[string]string{"client_max_window_bits": "10"}),
		httphead.NewOption("x-ext", nil),
	}[:nx]
	switch vChoose("header", 4) { // the caller's extra header in three of the forms the option accepts
	case 1:
		d.Header = HandshakeHeaderString("X-Custom: 7\r\n")
	case 2:
		d.Header = HandshakeHeaderBytes("X-Custom: 7\r\n")
	case 3:
		d.Header = HandshakeHeaderFunc(func(w io.Writer) (int64, error) {
			// (two writes, as a function assembling its lines would do)
			n1, _ := w.Write([]byte("X-Custom: "))
			n2, err := w.Write([]byte("7\r\n"))
			return int64(n1 + n2), err
		})
	}
	srv := &vServer{resp: func(key []byte) []byte { return nil }}
	d.Upgrade(srv, u) // fails at EOF; only the request matters here
	r := vParseReq(srv.out)
	vAssert(r.ok, "req.wellformed_head")
	if !r.ok {
		return
	}
	vAssert(r.line == "GET "+wantURI+" HTTP/1.1", "req.request_line")
	for _, hv := range [][2]string{{"Host", wantHost}, {"Upgrade", "websocket"}, {"Connection", "Upgrade"}, {"Sec-WebSocket-Version", "13"}} {
		v, n := r.get(hv[0])
		vAssert(vAnd(n == 1, string(v) == hv[1]), "req.mandatory_header_once_with_value")
	}
	k, n := r.get("Sec-WebSocket-Key")
	vAssert(n == 1, "req.key_once")
	vAssert(vIsKey16(k), "req.key_is_base64_of_16_bytes")
	p, n := r.get("Sec-WebSocket-Protocol")
	if np == 0 {
		vAssert(n == 0, "req.no_protocol_header")
	} else {
		vAssert(vAnd(n == 1, string(p) == []string{"", "chat", "chat, superchat"}[np]), "req.protocols_listed")
	}
	x, n := r.get("Sec-WebSocket-Extensions")
	if nx == 0 {
		vAssert(n == 0, "req.no_extensions_header")
	} else {
		// optional white space around separators is immaterial (RFC 7230 list syntax)
		xs := string(bytes.ReplaceAll(x, []byte(" "), nil))
		vAssert(vAnd(n == 1, xs == []string{"", "permessage-deflate;client_max_window_bits=10", "permessage-deflate;client_max_window_bits=10,x-ext"}[nx]), "req.extensions_listed")
	}
	c, n := r.get("X-Custom")
	if d.Header != nil {
		vAssert(vAnd(n == 1, string(c) == "7"), "req.custom_header")
	}
	vTraceBytes("key", k[22:])
}
