//go:build verif

package ws

import (
	"bytes"
	"crypto/sha1"
	"encoding/base64"
	"io"
	"net"
	"strings"
	"time"
)

// vSrc serves data with nondeterministic chunking (all / 1 byte / 2 bytes per Read).
type vSrc struct {
	data  []byte
	pos   int
	reads int
	name  string
	whole bool // no chunking nondeterminism
	one   bool // one byte per read
}

func (s *vSrc) Read(p []byte) (int, error) {
	s.reads++
	if s.pos >= len(s.data) {
		return 0, io.EOF
	}
	if len(p) == 0 {
		return 0, nil
	}
	n := len(s.data) - s.pos
	if n > len(p) {
		n = len(p)
	}
	if s.one {
		n = 1
	} else if !s.whole && n > 1 {
		k := 3
		if n == 2 {
			k = 2
		}
		switch vChoose(s.name, k) {
		case 1:
			n = 1
		case 2:
			n = 2
		}
	}
	copy(p, s.data[s.pos:s.pos+n])
	s.pos += n
	return n, nil
}

func vIn(b, lo, hi byte) bool { return vAnd(b >= lo, b <= hi) }

// vUTF8Step is the reference UTF-8 automaton written from Unicode Table 3-7
// (well-formed byte sequences), branch-free.  States: 0 start/accept, 1..3 =
// that many continuation bytes pending, 4 after E0, 5 after ED, 6 after F0,
// 7 after F4, 8 reject.
func vUTF8Step(s uint64, b byte) uint64 {
	fromStart := vIte(b <= 0x7f, 0,
		vIte(vIn(b, 0xC2, 0xDF), 1,
			vIte(b == 0xE0, 4,
				vIte(vOr(vIn(b, 0xE1, 0xEC), vIn(b, 0xEE, 0xEF)), 2,
					vIte(b == 0xED, 5,
						vIte(b == 0xF0, 6,
							vIte(vIn(b, 0xF1, 0xF3), 3,
								vIte(b == 0xF4, 7, 8))))))))
	cont := vIn(b, 0x80, 0xBF)
	return vIte(s == 0, fromStart,
		vIte(s == 1, vIte(cont, 0, 8),
			vIte(s == 2, vIte(cont, 1, 8),
				vIte(s == 3, vIte(cont, 2, 8),
					vIte(s == 4, vIte(vIn(b, 0xA0, 0xBF), 1, 8),
						vIte(s == 5, vIte(vIn(b, 0x80, 0x9F), 1, 8),
							vIte(s == 6, vIte(vIn(b, 0x90, 0xBF), 2, 8),
								vIte(s == 7, vIte(vIn(b, 0x80, 0x8F), 2, 8), 8))))))))
}

// vUTF8Valid: reference well-formedness of a whole byte string.
func vUTF8Valid(p []byte) bool {
	s := uint64(0)
	for _, b := range p {
		s = vUTF8Step(s, b)
	}
	return s == 0
}

// recording writer
type vRec struct{ b []byte }

func (r *vRec) Write(p []byte) (int, error) { r.b = append(r.b, p...); return len(p), nil }

func vHeader() Header {
	var h Header
	h.Fin = vBool("fin")
	h.Rsv = vU8("rsv")
	h.OpCode = OpCode(vU8("op"))
	h.Masked = vBool("masked")
	h.Mask = [4]byte{vU8("m0"), vU8("m1"), vU8("m2"), vU8("m3")}
	h.Length = int64(vU64("len"))
	vAssume(h.Rsv <= 7)
	vAssume(h.OpCode <= 15)
	vAssume(h.Length >= 0)
	return h
}

func vHeaderEq(a, b Header) bool {
	ok := vAnd(a.Fin == b.Fin, a.Rsv == b.Rsv)
	ok = vAnd(ok, a.OpCode == b.OpCode)
	ok = vAnd(ok, a.Masked == b.Masked)
	ok = vAnd(ok, a.Length == b.Length)
	ok = vAnd(ok, vImplies(a.Masked, a.Mask == b.Mask))
	return ok
}

type vConn struct {
	in          []byte
	pos         int
	out         []byte
	one         bool
	cutErr      bool
	endWithData bool // report the end of the stream together with the last bytes
	lines       bool // deliver one line (up to and including LF) per Read
}

func (c *vConn) Read(p []byte) (int, error) {
	if c.pos >= len(c.in) {
		if c.cutErr {
			return 0, io.ErrUnexpectedEOF
		}
		return 0, io.EOF
	}
	n := len(c.in) - c.pos
	if n > len(p) {
		n = len(p)
	}
	if c.one && n > 1 {
		n = 1
	}
	if c.lines {
		if i := bytes.IndexByte(c.in[c.pos:c.pos+n], '\n'); i >= 0 {
			n = i + 1
		}
	}
	copy(p, c.in[c.pos:c.pos+n])
	c.pos += n
	if c.endWithData && c.pos >= len(c.in) {
		if c.cutErr {
			return n, io.ErrUnexpectedEOF
		}
		return n, io.EOF
	}
	return n, nil
}

func (c *vConn) Write(p []byte) (int, error) { c.out = append(c.out, p...); return len(p), nil }

func vAccept(key []byte) []byte {
	h := sha1.Sum(append(append([]byte{}, key...), "258EAFA5-E914-47DA-95CA-C5AB0DC85B11"...))
	out := make([]byte, 28)
	base64.StdEncoding.Encode(out, h[:])
	return out
}

// vResp is a parsed HTTP response head (concrete bytes expected).
type vResp struct {
	ok      bool
	status  int
	headers [][2]string
	body    []byte
}

func vParseResp(b []byte) (r vResp) {
	end := bytes.Index(b, []byte("\r\n\r\n"))
	if end < 0 {
		return r
	}
	lines := bytes.Split(b[:end], []byte("\r\n"))
	sl := lines[0]
	if len(sl) < 12 || string(sl[:9]) != "HTTP/1.1 " {
		return r
	}
	for _, c := range sl[9:12] {
		if c < '0' || c > '9' {
			return r
		}
		r.status = r.status*10 + int(c-'0')
	}
	for _, l := range lines[1:] {
		i := bytes.Index(l, []byte(": "))
		if i < 0 {
			return r
		}
		r.headers = append(r.headers, [2]string{string(l[:i]), string(l[i+2:])})
	}
	r.body = b[end+4:]
	r.ok = true
	return r
}

func (r vResp) get(name string) (string, int) {
	n, v := 0, ""
	for _, h := range r.headers {
		if h[0] == name {
			if n == 0 {
				v = h[1]
			}
			n++
		}
	}
	return v, n
}

var vKeys = []string{"dGhlIHNhbXBsZSBub25jZQ==", "AAAAAAAAAAAAAAAAAAAAAA=="}

type vRejectErr struct{}

func (vRejectErr) Error() string { return "harness: plain rejection" }

// vSplitReq parses the request the dialer wrote (concrete apart from the key).
type vReqParsed struct {
	ok     bool
	line   string
	names  []string
	values [][]byte
}

func vParseReq(b []byte) (r vReqParsed) {
	end := bytes.Index(b, []byte("\r\n\r\n"))
	if end < 0 || end+4 != len(b) {
		return r
	}
	lines := bytes.Split(b[:end], []byte("\r\n"))
	r.line = string(lines[0])
	for _, l := range lines[1:] {
		i := bytes.Index(l, []byte(": "))
		if i < 0 {
			return r
		}
		r.names = append(r.names, string(l[:i]))
		r.values = append(r.values, l[i+2:])
	}
	r.ok = true
	return r
}

func (r vReqParsed) get(name string) ([]byte, int) {
	var v []byte
	n := 0
	for i, k := range r.names {
		if k == name {
			if n == 0 {
				v = r.values[i]
			}
			n++
		}
	}
	return v, n
}

// vServer is the harness' peer: it swallows the request and serves a scripted response.
type vServer struct {
	out     []byte // what the dialer wrote
	resp    func(key []byte) []byte
	in      []byte
	started bool
	pos     int
	chunks  []int // sizes of successive reads (0 = rest)
	reads   int
	keySeen []byte
	lines   bool // deliver one line (up to and including LF) per Read
}

func (s *vServer) Write(p []byte) (int, error) { s.out = append(s.out, p...); return len(p), nil }

func (s *vServer) Read(p []byte) (int, error) {
	if !s.started {
		s.started = true
		i := bytes.Index(s.out, []byte("Sec-WebSocket-Key: "))
		if i >= 0 && len(s.out) >= i+19+24 {
			s.keySeen = s.out[i+19 : i+19+24]
		}
		s.in = s.resp(s.keySeen)
	}
	if s.pos >= len(s.in) {
		return 0, io.EOF
	}
	n := len(s.in) - s.pos
	if s.reads < len(s.chunks) && s.chunks[s.reads] > 0 && s.chunks[s.reads] < n {
		n = s.chunks[s.reads]
	}
	s.reads++
	if n > len(p) {
		n = len(p)
	}
	if s.lines {
		if i := bytes.IndexByte(s.in[s.pos:s.pos+n], '\n'); i >= 0 {
			n = i + 1
		}
	}
	copy(p, s.in[s.pos:s.pos+n])
	s.pos += n
	return n, nil
}

type vStubAddr struct{}

func (vStubAddr) Network() string { return "tcp" }

func (vStubAddr) String() string { return "stub" }

type vNetConn struct {
	vServer
	closed bool
}

func (c *vNetConn) Close() error { c.closed = true; return nil }

func (c *vNetConn) LocalAddr() net.Addr { return vStubAddr{} }

func (c *vNetConn) RemoteAddr() net.Addr { return vStubAddr{} }

func (c *vNetConn) SetDeadline(t time.Time) error { return nil }

func (c *vNetConn) SetReadDeadline(t time.Time) error { return nil }

func (c *vNetConn) SetWriteDeadline(t time.Time) error { return nil }

// vHasUpgradeToken: reference for "the Connection header contains the upgrade token"
// (RFC 7230 list of tokens, compared case-insensitively) on concrete values.
func vHasUpgradeToken(v string) bool {
	for _, part := range strings.Split(v, ",") {
		t := strings.Trim(part, " \t")
		if strings.EqualFold(t, "upgrade") {
			return true
		}
	}
	return false
}
