//go:build verif

package ws

import (
	"github.com/gobwas/httphead"
)

// C09_selection: the subprotocol returned and sent is the first one in the client's order that
// the selector accepts; returned extensions come only from the client's offer — whatever the
// read buffer size and transport chunking.
func C09_selection() {
	tokA, tokB := vU8("tokA"), vU8("tokB")
	vAssume(vAnd(vIn(tokA, 'a', 'z'), vIn(tokB, 'a', 'z')))
	names := [][]byte{{'p', tokA}, {'q', 'q'}, {'r', tokB}}
	acc := [3]bool{vBool("acc0"), vBool("acc1"), vBool("acc2")}
	req := []byte("GET /x HTTP/1.1\r\nHost: h\r\nUpgrade: websocket\r\nConnection: Upgrade\r\nSec-WebSocket-Version: 13\r\nSec-WebSocket-Key: dGhlIHNhbXBsZSBub25jZQ==\r\n")
	two := vChoose("twolines", 2) == 1 // the list split over two header lines
	req = append(req, "Sec-WebSocket-Protocol: "...)
	req = append(req, names[0]...)
	if two {
		req = append(req, "\r\nSec-WebSocket-Protocol: "...)
	} else {
		req = append(req, " , "...)
	}
	req = append(req, names[1]...)
	req = append(req, ","...)
	req = append(req, names[2]...)
	req = append(req, "\r\nSec-WebSocket-Extensions: ext-a; k=v, ext-b\r\nX-Filler: 0123456789012345678901234567890123456789\r\n\r\n"...)
	u := Upgrader{
		Protocol: func(p []byte) bool {
			for i, n := range names {
				if vConcrete(vIte(vEqBytes(p, n), 1, 0)) == 1 {
					return acc[i]
				}
			}
			return false
		},
		Extension: func(o httphead.Option) bool { return string(o.Name) == "ext-b" },
	}
	env := vChoose("env", 4)
	conn := &vConn{in: req, one: env == 1}
	switch env {
	case 2:
		u.ReadBufferSize = 16
	case 3:
		u.ReadBufferSize = 64
		conn.one = true
	}
	hs, err := u.Upgrade(conn)
	vAssert(err == nil, "select.ok")
	if err != nil {
		return
	}
	want := []byte{}
	found := false
	for i := range names {
		if !found && vConcrete(vIte(acc[i], 1, 0)) == 1 {
			want, found = names[i], true
		}
	}
	vAssert(vEqBytes([]byte(hs.Protocol), want), "select.first_acceptable_protocol_returned")
	r := vParseResp(conn.out)
	vAssert(vAnd(r.ok, r.status == 101), "select.101")
	sent, n := r.get("Sec-WebSocket-Protocol")
	if found {
		vAssert(vAnd(n == 1, vEqBytes([]byte(sent), want)), "select.protocol_sent")
	} else {
		vAssert(n == 0, "select.no_protocol_header_when_none_accepted")
	}
	vAssert(vAnd(len(hs.Extensions) == 1, string(hs.Extensions[0].Name) == "ext-b"), "select.extensions_from_offer")
	x, _ := r.get("Sec-WebSocket-Extensions")
	vAssert(x == "ext-b", "select.extensions_sent")
}
