//go:build verif

package ws

import (
	"github.com/gobwas/httphead"
)

// C09_negotiate_objection: the Negotiate callback sees every offered extension in order and may
// accept it, pass, or object.  Success exactly when it objected to none; then the returned and
// sent extensions are the accepted ones in the client's order.  An objection — to ANY element of
// the list, first, middle or last, on one header line or two — fails the handshake with the
// callback's status and no 101.
func C09_negotiate_objection() {
	// names and a parameter value carry arbitrary token bytes
	tb := vBytes("tok", 4)
	for _, c := range tb {
		vAssume(vOr(vIn(c, 'a', 'z'), vOr(vIn(c, '0', '9'), c == '-')))
	}
	names := []string{"x" + string(tb[:1]), "y" + string(tb[1:2]), "z" + string(tb[2:3])}
	val := string(tb[3:4])
	verdict := [3]int{vChoose("v0", 3), vChoose("v1", 3), vChoose("v2", 3)} // 0 accept, 1 pass, 2 object
	layout := vChoose("layout", 3)
	req := []byte("GET /x HTTP/1.1\r\nHost: h\r\nUpgrade: websocket\r\nConnection: Upgrade\r\nSec-WebSocket-Version: 13\r\nSec-WebSocket-Key: dGhlIHNhbXBsZSBub25jZQ==\r\n")
	switch layout {
	case 0:
		req = append(req, "Sec-WebSocket-Extensions: "+names[0]+"; k="+val+", "+names[1]+", "+names[2]+"; m\r\n"...)
	case 1:
		req = append(req, "Sec-WebSocket-Extensions: "+names[0]+"; k="+val+"\r\nSec-WebSocket-Extensions: "+names[1]+", "+names[2]+"; m\r\n"...)
	case 2:
		req = append(req, "Sec-WebSocket-Extensions: "+names[0]+"; k="+val+", "+names[1]+"\r\nX-Other: 1\r\nSec-WebSocket-Extensions: "+names[2]+"; m\r\n"...)
	}
	req = append(req, "\r\n"...)
	var seen []int
	u := Upgrader{Negotiate: func(o httphead.Option) (httphead.Option, error) {
		for i, n := range names {
			if len(o.Name) == 2 && o.Name[0] == n[0] {
				seen = append(seen, i)
				switch verdict[i] {
				case 0:
					return o.Copy(make([]byte, o.Size())), nil
				case 1:
					return httphead.Option{}, nil
				default:
					return httphead.Option{}, RejectConnectionError(RejectionStatus(403), RejectionReason("no "+n))
				}
			}
		}
		return httphead.Option{}, nil
	}}
	conn := &vConn{in: req, one: vChoose("chunk", 2) == 1}
	hs, err := u.Upgrade(conn)
	objected := -1
	for i := 0; i < 3 && objected < 0; i++ {
		if verdict[i] == 2 {
			objected = i
		}
	}
	r := vParseResp(conn.out)
	vAssert(r.ok, "neg.response_written")
	if !r.ok {
		return
	}
	if objected >= 0 {
		vAssert(err != nil, "neg.objection_fails_handshake")
		vAssert(r.status != 101, "neg.no_101_after_objection")
		vAssert(r.status == 403, "neg.callback_status")
		vAssert(vEqBytes(r.body, []byte("no "+names[objected])), "neg.body_is_the_first_objection")
		return
	}
	vAssert(vAnd(err == nil, r.status == 101), "neg.success_without_objection")
	if err != nil {
		return
	}
	// every offer was shown to the callback, in order
	vAssert(vAnd(len(seen) == 3, vAnd(seen[0] == 0, vAnd(seen[1] == 1, seen[2] == 2))), "neg.every_offer_seen_in_order")
	var want []string
	for i, v := range verdict {
		if v == 0 {
			want = append(want, names[i])
		}
	}
	vAssert(len(hs.Extensions) == len(want), "neg.accepted_count")
	if len(hs.Extensions) == len(want) {
		for i := range want {
			vAssert(vEqBytes(hs.Extensions[i].Name, []byte(want[i])), "neg.accepted_in_client_order")
		}
	}
	if verdict[0] == 0 && len(hs.Extensions) > 0 {
		v, ok := hs.Extensions[0].Parameters.Get("k")
		vAssert(vAnd(ok, vEqBytes(v, []byte(val))), "neg.accepted_parameters_kept")
	}
	if len(want) > 0 {
		_, n := r.get("Sec-WebSocket-Extensions")
		vAssert(n >= 1, "neg.extensions_header_sent")
	}
}
