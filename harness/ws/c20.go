//go:build verif

package ws

import (
	"bytes"
	"context"
	"net"
	"sync"
	"time"
)

// ---- logical/real time ----
//
// Under the engine time is logical: vClock (ns) only advances when every thread is blocked
// (vIdle fires the earliest pending timer).  Natively the same scenario runs in real time with
// the same durations in milliseconds.

const vMs = int64(time.Millisecond)

// vUnit: one scenario "millisecond".  Under the engine time is logical and a unit is 1 ms;
// natively it is 10 ms of real time, so that the three durations (200/400/800 ms) stay apart by
// far more than the scheduling delays of a loaded machine (the native slack is 150 ms).
func vUnit() int64 {
	if vSymbolic() {
		return vMs
	}
	return 10 * vMs
}

var (
	vClock  int64
	vTimers []*vTimer
	vEpoch  = time.Unix(1_000_000, 0)
)

type vTimer struct {
	at    int64
	fire  func()
	fired bool
}

func vNowNs() int64 {
	if vSymbolic() {
		return vClock
	}
	return int64(time.Since(vRealStart))
}

var vRealStart time.Time

// vTimeAt: the instant ns after the start of the scenario (logical epoch under the engine,
// the real start time natively).
func vTimeAt(ns int64) time.Time {
	if vSymbolic() {
		return vEpoch.Add(time.Duration(ns))
	}
	return vRealStart.Add(time.Duration(ns))
}

// model of time.Now for the engine (natively the real one runs)
func vModel_time_Now() time.Time { return vTimeAt(vClock) }

// vIdle is called by the engine when no thread can run: advance the clock to the next timer
// or to the connection deadline a blocked I/O call is waiting for.
func vIdle() bool {
	best := int64(-1)
	var bt *vTimer
	for _, t := range vTimers {
		if !t.fired && (best < 0 || t.at < best) {
			best, bt = t.at, t
		}
	}
	if c := vTheConn; c != nil {
		// the earlier of the armed read and write deadlines that still lies ahead
		for _, d := range []time.Time{c.dl, c.wdl} {
			if d.IsZero() {
				continue
			}
			at := int64(d.Sub(vEpoch))
			if at > vClock && (best < 0 || at < best) {
				best, bt = at, nil
			}
		}
		if bt == nil && best >= 0 {
			vClock = best
			return true
		}
	}
	if bt == nil {
		return false
	}
	if bt.at > vClock {
		vClock = bt.at
	}
	bt.fired = true
	bt.fire()
	return true
}

// ---- a context the environment controls ----

type vCtx struct {
	mu       sync.Mutex
	done     chan struct{}
	err      error
	deadline time.Time
	hasDL    bool
	children []*vCtx
	// natively the context is a standard library one underneath, so that contexts derived from it
	// (Dial's timeout context) are cancelled synchronously with it, as for any context built by
	// the context package; under the engine the fields above are the whole context
	std       context.Context
	stdCancel context.CancelFunc
}

func vNewCtx() *vCtx {
	c := &vCtx{done: make(chan struct{})}
	if !vSymbolic() {
		c.std, c.stdCancel = context.WithCancel(context.Background())
	}
	return c
}

// setDeadline gives the context a deadline (before it is handed to Dial).
func (c *vCtx) setDeadline(t time.Time) {
	c.deadline, c.hasDL = t, true
	if !vSymbolic() {
		c.stdCancel()
		c.std, c.stdCancel = context.WithDeadline(context.Background(), t)
	}
}

func (c *vCtx) Deadline() (time.Time, bool) { return c.deadline, c.hasDL }
func (c *vCtx) Done() <-chan struct{} {
	if !vSymbolic() {
		return c.std.Done()
	}
	return c.done
}
func (c *vCtx) Value(key interface{}) interface{} {
	if !vSymbolic() {
		return c.std.Value(key)
	}
	return nil
}
func (c *vCtx) Err() error {
	if !vSymbolic() {
		return c.std.Err()
	}
	c.mu.Lock()
	defer c.mu.Unlock()
	return c.err
}
func (c *vCtx) cancel(err error) {
	if !vSymbolic() {
		c.stdCancel()
		return
	}
	c.mu.Lock()
	if c.err != nil {
		c.mu.Unlock()
		return
	}
	c.err = err
	close(c.done)
	kids := c.children
	c.mu.Unlock()
	for _, k := range kids {
		k.cancel(err)
	}
}

// engine model of context.WithDeadline (natively the real one runs on top of vCtx)
func vModel_context_WithDeadline(parent context.Context, d time.Time) (context.Context, context.CancelFunc) {
	child := vNewCtx()
	child.deadline, child.hasDL = d, true
	if pd, ok := parent.Deadline(); ok && pd.Before(d) {
		child.deadline = pd
	}
	if p, ok := parent.(*vCtx); ok {
		p.mu.Lock()
		if p.err != nil {
			child.err = p.err
			close(child.done)
		} else {
			p.children = append(p.children, child)
		}
		p.mu.Unlock()
	}
	if !d.After(vTimeAt(vClock)) {
		// a deadline that has already passed: the context is over from the start
		child.cancel(context.DeadlineExceeded)
		return child, func() {}
	}
	vTimers = append(vTimers, &vTimer{at: int64(d.Sub(vEpoch)), fire: func() { child.cancel(context.DeadlineExceeded) }})
	return child, func() { child.cancel(context.Canceled) }
}

// ---- a connection that honours deadlines ----

type vTimeoutErr struct{}

func (vTimeoutErr) Error() string   { return "harness: i/o timeout" }
func (vTimeoutErr) Timeout() bool   { return true }
func (vTimeoutErr) Temporary() bool { return true }

type vDConn struct {
	mu                   sync.Mutex
	dl                   time.Time // read deadline
	wdl                  time.Time // write deadline
	blockWrite           bool      // (with silent) the peer does not read either: writes block
	ops                  int       // I/O and deadline operations so far
	cancelAt             int       // cancel the context at operation #cancelAt (-1: never)
	cancelLate           bool      // ... at its end instead of its start
	ctx                  *vCtx
	silent               bool // the peer never answers
	partial              bool // ... after sending the status line and part of a header line
	sentPrefix           bool
	refuse               bool // the peer answers 400 (a non-timeout handshake failure)
	hold                 bool // natively: hold the watcher inside its poisoning SetDeadline until Dial returned (<= 50 ms)
	watcherIn            bool
	wrote                []byte
	resp                 []byte
	pos                  int
	closed               bool
	returned             bool // Dial has returned
	opsAfter             int  // operations observed after Dial returned
	setDLs               int
	lastIOErr            error
	ioDone               int // ops index of the last read/write
	poisonedBeforeLastIO bool
}

var vTheConn *vDConn

// vLateWatcher (native only): the stub connection neither yields nor waits for the watcher, so
// that under GOMAXPROCS(1) the watcher goroutine first runs when Dial blocks waiting for it.
var vLateWatcher bool

// op marks the start of connection operation #k; opEnd its completion.  The context is
// cancelled at the start (cancelLate=false) or at the end (cancelLate=true) of operation
// #cancelAt.  Natively the canceller then waits (<= 20 ms) for the watcher to poison the
// connection, which makes the "watcher ran at once" interleaving deterministic there; the
// engine explores every interleaving regardless.
func (c *vDConn) op() int {
	c.mu.Lock()
	k := c.ops
	c.ops++
	if c.returned {
		c.opsAfter++
	}
	c.mu.Unlock()
	if c.ctx != nil && k == c.cancelAt && !c.cancelLate {
		c.cancelNow()
	}
	if vSymbolic() || !vLateWatcher {
		vYield()
	}
	return k
}

func (c *vDConn) opEnd(k int) {
	if c.ctx != nil && k == c.cancelAt && c.cancelLate {
		c.cancelNow()
		if vSymbolic() || !vLateWatcher {
			vYield()
		}
	}
}

func (c *vDConn) cancelNow() {
	c.ctx.cancel(context.Canceled)
	if !vSymbolic() && !vLateWatcher {
		for i := 0; i < 20 && !c.expired() && !(c.hold && c.entered()); i++ {
			time.Sleep(time.Millisecond)
		}
	}
}

func (c *vDConn) entered() bool {
	c.mu.Lock()
	defer c.mu.Unlock()
	return c.watcherIn
}

func (c *vDConn) hasReturned() bool {
	c.mu.Lock()
	defer c.mu.Unlock()
	return c.returned
}

func (c *vDConn) expired() bool {
	c.mu.Lock()
	defer c.mu.Unlock()
	return !c.dl.IsZero() && !c.dl.After(vTimeAt(vNowNs()))
}

// expiredW: the WRITE deadline has passed (read and write deadlines are separate, as on net.Conn).
func (c *vDConn) expiredW() bool {
	c.mu.Lock()
	defer c.mu.Unlock()
	return !c.wdl.IsZero() && !c.wdl.After(vTimeAt(vNowNs()))
}

func (c *vDConn) Read(p []byte) (int, error) {
	k := c.op()
	defer c.opEnd(k)
	if c.expired() {
		return 0, vTimeoutErr{}
	}
	if c.silent {
		if c.partial && !c.sentPrefix {
			c.sentPrefix = true
			return copy(p, "HTTP/1.1 101 Switching Protocols\r\nUpgrade: websocket\r\nConnec"), nil
		}
		vWait(c.expired)
		return 0, vTimeoutErr{}
	}
	c.mu.Lock()
	defer c.mu.Unlock()
	if c.resp == nil && c.refuse {
		c.resp = []byte("HTTP/1.1 400 Bad Request\r\n\r\n")
	}
	if c.resp == nil {
		i := bytes.Index(c.wrote, []byte("Sec-WebSocket-Key: "))
		key := c.wrote[i+19 : i+19+24]
		c.resp = []byte("HTTP/1.1 101 Switching Protocols\r\nUpgrade: websocket\r\nConnection: Upgrade\r\nSec-WebSocket-Accept: " + string(vAccept(key)) + "\r\n\r\n")
	}
	n := copy(p, c.resp[c.pos:])
	c.pos += n
	return n, nil
}

func (c *vDConn) Write(p []byte) (int, error) {
	k := c.op()
	defer c.opEnd(k)
	if c.expiredW() {
		return 0, vTimeoutErr{}
	}
	if c.silent && c.blockWrite {
		// the peer accepted the connection but does not read: the write blocks until its deadline
		vWait(c.expiredW)
		return 0, vTimeoutErr{}
	}
	c.mu.Lock()
	c.wrote = append(c.wrote, p...)
	c.mu.Unlock()
	return len(p), nil
}

func (c *vDConn) SetDeadline(t time.Time) error { return c.setDeadline(t, 0) }

// setDeadline: which = 0 both, 1 read only, 2 write only.
func (c *vDConn) setDeadline(t time.Time, which int) error {
	k := c.op()
	defer c.opEnd(k)
	if !vSymbolic() && c.hold && !t.IsZero() && t.Before(vRealStart) {
		// the watcher's poisoning call: keep it inside the call until Dial has returned (a correct
		// Dial cannot return before the watcher is done, so this just waits out the 50 ms)
		c.mu.Lock()
		c.watcherIn = true
		c.mu.Unlock()
		for i := 0; i < 50 && !c.hasReturned(); i++ {
			time.Sleep(time.Millisecond)
		}
	}
	c.mu.Lock()
	if which != 2 {
		c.dl = t
	}
	if which != 1 {
		c.wdl = t
	}
	c.setDLs++
	if c.returned {
		// the deadline is applied after Dial returned: the connection was touched again
		c.opsAfter++
	}
	c.mu.Unlock()
	return nil
}
func (c *vDConn) SetReadDeadline(t time.Time) error  { return c.setDeadline(t, 1) }
func (c *vDConn) SetWriteDeadline(t time.Time) error { return c.setDeadline(t, 2) }
func (c *vDConn) Close() error {
	c.mu.Lock()
	c.closed = true
	if c.returned {
		c.opsAfter++
	}
	c.mu.Unlock()
	return nil
}
func (c *vDConn) LocalAddr() net.Addr  { return vStubAddr{} }
func (c *vDConn) RemoteAddr() net.Addr { return vStubAddr{} }
