//go:build verif

package ws

// C02_cipher_pointwise: Cipher is the RFC 6455 §5.3 XOR for any payload, key and
// non-negative offset; no panic.
func C02_cipher_pointwise() {
	maxN := 40
	if vTier() > 0 {
		maxN = 130
	}
	n := vChoose("n", maxN+1)
	p := vBytes("p", n)
	orig := make([]byte, n)
	copy(orig, p)
	key := [4]byte{vU8("k0"), vU8("k1"), vU8("k2"), vU8("k3")}
	off := vInt("offset")
	vAssume(off >= 0)
	Cipher(p, key, off)
	om := byte(uint64(off) % 4) // overflow-free reference index
	ok := true
	for i := 0; i < n; i++ {
		ki := (om + byte(i%4)) % 4
		ok = vAnd(ok, p[i] == orig[i]^key[ki])
	}
	vAssert(ok, "cipher.xor")
	vTraceBytes("out", p)
}
