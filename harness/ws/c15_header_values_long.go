//go:build verif

package ws

import (
	"github.com/gobwas/httphead"
)

// C15_header_values_long: longer values over a small alphabet of the lexer's special characters.
func C15_header_values_long() {
	alpha := []byte{'a', ',', ';', '=', '"', '\\', ' ', 0x01}
	n := 5 + vTier()
	v := make([]byte, n)
	for i := range v {
		v[i] = alpha[vChoose("c", len(alpha))]
	}
	switch vChoose("fn", 3) {
	case 0:
		btsSelectProtocol(v, func(p []byte) bool { return false })
	case 1:
		negotiateExtensions(v, nil, func(o httphead.Option) (httphead.Option, error) { return o, nil })
	case 2:
		matchSelectedExtensions(v, []httphead.Option{httphead.NewOption("a", nil)}, nil)
	}
	vAssert(true, "values.returned")
}
