//go:build verif

package ws

func vArb(name string, n int) []byte { return vBytes(name, n) } // unconstrained bytes: CR, LF, NUL, 0x80+ allowed
