//go:build verif

package ws

import (
	"net/url"

	"github.com/gobwas/httphead"
)

func vArb(name string, n int) []byte { return vBytes(name, n) } // unconstrained bytes: CR, LF, NUL, 0x80+ allowed

// C15_header_values: the token/option selection helpers on arbitrary header values.
func C15_header_values() {
	n := vChoose("n", 4+vTier())
	v := vArb("v", n)
	switch vChoose("fn", 5) {
	case 0:
		btsSelectProtocol(v, func(p []byte) bool { return len(p) == 1 })
	case 1:
		btsSelectExtensions(v, nil, func(o httphead.Option) bool { return len(o.Name) == 1 })
	case 2:
		negotiateExtensions(v, nil, func(o httphead.Option) (httphead.Option, error) { return o, nil })
	case 3:
		matchSelectedExtensions(v, []httphead.Option{httphead.NewOption("a", nil)}, nil)
	case 4:
		btsHasToken(v, []byte("upgrade"))
		strSelectProtocol(string(v), func(s string) bool { return s == "a" })
	}
	vAssert(true, "values.returned")
}

// C15_header_values_long: longer values over a small alphabet of the lexer's special characters.
func C15_header_values_long() {
	alpha := []byte{'a', ',', ';', '=', '"', '\\', ' ', 0x01}
	n := 5 + vTier()
	v := make([]byte, n)
	for i := range v {
		v[i] = alpha[vChoose("c", len(alpha))]
	}
	switch vChoose("fn", 3) {
	case 0:
		btsSelectProtocol(v, func(p []byte) bool { return false })
	case 1:
		negotiateExtensions(v, nil, func(o httphead.Option) (httphead.Option, error) { return o, nil })
	case 2:
		matchSelectedExtensions(v, []httphead.Option{httphead.NewOption("a", nil)}, nil)
	}
	vAssert(true, "values.returned")
}

// C15_request_bytes: arbitrary bytes in every part of an upgrade request.
func C15_request_bytes() {
	hole := vArb("h", 3+2*vTier())
	var req []byte
	switch vChoose("where", 6) {
	case 0: // the whole request line
		req = append(append([]byte{}, hole...), "\r\nHost: h\r\n\r\n"...)
	case 1: // inside the request line
		req = append(append([]byte("GET /"), hole...), " HTTP/1.1\r\nHost: h\r\n\r\n"...)
	case 2: // version token
		req = append(append([]byte("GET / HTTP/"), hole...), "\r\nHost: h\r\n\r\n"...)
	case 3: // header name
		req = append(append([]byte("GET / HTTP/1.1\r\n"), hole...), ": v\r\nHost: h\r\n\r\n"...)
	case 4: // Connection / protocol / extensions values
		which := []string{"Connection: ", "Sec-WebSocket-Protocol: ", "Sec-WebSocket-Extensions: ", "Sec-WebSocket-Key: ", "Upgrade: "}[vChoose("hdr", 5)]
		req = append(append([]byte("GET / HTTP/1.1\r\nHost: h\r\nUpgrade: websocket\r\n"+which), hole...), "\r\nSec-WebSocket-Version: 13\r\nSec-WebSocket-Key: dGhlIHNhbXBsZSBub25jZQ==\r\nConnection: Upgrade\r\n\r\n"...)
	case 5: // truncated anywhere
		full := []byte("GET / HTTP/1.1\r\nHost: h\r\nUpgrade: websocket\r\nConnection: Upgrade\r\nSec-WebSocket-Version: 13\r\nSec-WebSocket-Key: dGhlIHNhbXBsZSBub25jZQ==\r\n\r\n")
		req = full[:vChoose("cut", len(full))]
	}
	u := Upgrader{
		Protocol:  func(p []byte) bool { return len(p) == 1 },
		Negotiate: func(o httphead.Option) (httphead.Option, error) { return o, nil },
	}
	env := vChoose("env", 4) // one variation at a time
	if env == 1 {
		u.Negotiate = nil
		u.Extension = func(o httphead.Option) bool { return true }
	}
	conn := &vConn{in: req, one: env == 2}
	if env == 3 {
		u.ReadBufferSize = 16
	}
	_, err := u.Upgrade(conn)
	if len(req) < 20 {
		vAssert(err != nil, "request.garbage_is_error")
	}
	vAssert(true, "request.returned")
}

// C15_response_bytes: arbitrary bytes in every part of an upgrade response.
func C15_response_bytes() {
	vRandConcrete(true)
	hole := vArb("h", 3+2*vTier())
	srv := &vServer{}
	where := vChoose("where", 5)
	which := 0
	if where == 2 {
		which = vChoose("hdr", 4)
	}
	cut := 0
	if where == 4 {
		cut = vChoose("cut", 40)
	}

	srv.resp = func(key []byte) []byte {
		ok := "HTTP/1.1 101 Switching Protocols\r\nUpgrade: websocket\r\nConnection: Upgrade\r\nSec-WebSocket-Accept: " + string(vAccept(key)) + "\r\n"
		switch where {
		case 0:
			return append(append([]byte{}, hole...), "\r\n\r\n"...)
		case 1:
			return append(append([]byte("HTTP/1.1 "), hole...), " x\r\n\r\n"...)
		case 2:
			h := []string{"Sec-WebSocket-Protocol: ", "Sec-WebSocket-Extensions: ", "Sec-WebSocket-Accept: ", ""}[which]
			return append(append([]byte(ok+h), hole...), "\r\n\r\n"...)
		case 3:
			return append(append([]byte("HTTP/"), hole...), " 101 x\r\n\r\n"...)
		}
		b := []byte(ok + "\r\n")
		if cut < len(b) {
			b = b[:len(b)-cut]
		}
		return b
	}
	d := Dialer{Protocols: []string{"a"}, Extensions: []httphead.Option{httphead.NewOption("a", nil)}}
	if vChoose("rbuf", 2) == 1 {
		d.ReadBufferSize = 16
		srv.chunks = []int{1, 1, 1, 1, 1, 1, 1, 1, 1, 1, 1, 1, 1, 1, 1, 1, 1, 1, 1, 1, 1, 1, 1, 1}
	}
	br, _, err := d.Upgrade(srv, &url.URL{Scheme: "ws", Host: "h", Path: "/"})
	if err != nil {
		vAssert(br == nil, "response.no_reader_on_error")
	}
	vAssert(true, "response.returned")
}
