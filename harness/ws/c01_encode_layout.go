//go:build verif

package ws

// C01_encode_layout: WriteHeader emits exactly the RFC 6455 §5.2 layout, HeaderSize agrees.
func C01_encode_layout() {
	h := vHeader()
	w := &vRec{}
	err := WriteHeader(w, h)
	vAssert(err == nil, "encode.noerr")
	b := w.b
	L := uint64(h.Length)
	// expected size
	exp := 2
	if L > 125 {
		exp = 4
	}
	if L > 65535 {
		exp = 10
	}
	lenBytes := exp
	if h.Masked {
		exp += 4
	}
	vAssert(len(b) == exp, "encode.size")
	vAssert(HeaderSize(h) == exp, "encode.headersize")
	if len(b) != exp {
		return
	}
	b0 := h.Rsv<<4 | byte(h.OpCode)
	if h.Fin {
		b0 |= 0x80
	}
	vAssert(b[0] == b0, "encode.byte0")
	var b1 byte
	switch lenBytes {
	case 2:
		b1 = byte(L)
	case 4:
		b1 = 126
		vAssert(vAnd(b[2] == byte(L>>8), b[3] == byte(L)), "encode.len16")
	case 10:
		b1 = 127
		ok := true
		for i := 0; i < 8; i++ {
			ok = vAnd(ok, b[2+i] == byte(L>>(8*uint(7-i))))
		}
		vAssert(ok, "encode.len64")
	}
	if h.Masked {
		b1 |= 0x80
		ok := true
		for i := 0; i < 4; i++ {
			ok = vAnd(ok, b[lenBytes+i] == h.Mask[i])
		}
		vAssert(ok, "encode.mask")
	}
	vAssert(b[1] == b1, "encode.byte1")
	vTraceBytes("hdr", b)
}
