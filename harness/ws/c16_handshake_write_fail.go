//go:build verif

package ws

import (
	"io"
	"net/url"
)

// vFailWriteConn serves a complete peer message on Read and fails the k-th Write call
// (accepting `short` bytes of it first).
type vFailWriteConn struct {
	in     []byte
	pos    int
	resp   func(wrote []byte) []byte
	wrote  []byte
	writes int
	failAt int
	short  int
}

func (c *vFailWriteConn) Read(p []byte) (int, error) {
	if c.in == nil && c.resp != nil {
		c.in = c.resp(c.wrote)
	}
	if c.pos >= len(c.in) {
		return 0, io.EOF
	}
	n := copy(p, c.in[c.pos:])
	c.pos += n
	return n, nil
}

func (c *vFailWriteConn) Write(p []byte) (int, error) {
	k := c.writes
	c.writes++
	if k == c.failAt {
		n := c.short
		if n > len(p) {
			n = len(p)
		}
		c.wrote = append(c.wrote, p[:n]...)
		return n, io.ErrClosedPipe
	}
	c.wrote = append(c.wrote, p...)
	return len(p), nil
}

// C16_handshake_write_fail: when the transport fails while the handshake is being WRITTEN (the
// response on the server side, the request on the client side; the failing write accepts 0, 1
// or 20 bytes first; small write buffers make it the first or a later write) the handshake
// returns an error.
func C16_handshake_write_fail() {
	vRandConcrete(true)
	short := []int{0, 1, 20}[vChoose("short", 3)]
	failAt := vChoose("failat", 2)
	wbuf := []int{0, 16}[vChoose("wbuf", 2)] // default or a buffer smaller than the message
	if failAt == 1 && wbuf == 0 {
		vAssume(false) // with the default buffer the whole head is one write
	}
	if vChoose("side", 2) == 0 {
		req := []byte("GET /x HTTP/1.1\r\nHost: h\r\nUpgrade: websocket\r\nConnection: Upgrade\r\nSec-WebSocket-Version: 13\r\nSec-WebSocket-Key: dGhlIHNhbXBsZSBub25jZQ==\r\n\r\n")
		if vBool("badrequest") {
			req = []byte("GET /x HTTP/1.1\r\nHost: h\r\nUpgrade: websocket\r\nConnection: Upgrade\r\nSec-WebSocket-Version: 12\r\nSec-WebSocket-Key: dGhlIHNhbXBsZSBub25jZQ==\r\n\r\n")
		}
		conn := &vFailWriteConn{in: req, failAt: failAt, short: short}
		u := Upgrader{WriteBufferSize: wbuf}
		_, err := u.Upgrade(conn)
		vAssert(err != nil, "wfail.upgrader_reports_error")
		return
	}
	conn := &vFailWriteConn{failAt: failAt, short: short}
	conn.resp = func(wrote []byte) []byte {
		// whatever arrived, the peer answers with a perfectly valid 101 for the sample key — the
		// dialer must not even get that far
		return []byte("HTTP/1.1 101 Switching Protocols\r\nUpgrade: websocket\r\nConnection: Upgrade\r\nSec-WebSocket-Accept: s3pPLMBiTxaQ9kYGzzhZRbK+xOo=\r\n\r\n")
	}
	d := Dialer{WriteBufferSize: wbuf}
	br, _, err := d.Upgrade(conn, &url.URL{Scheme: "ws", Host: "h", Path: "/"})
	vAssert(err != nil, "wfail.dialer_reports_error")
	vAssert(br == nil, "wfail.no_reader")
}
