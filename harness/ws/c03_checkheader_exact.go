//go:build verif

package ws

// C03_checkheader_exact: CheckHeader accepts exactly when no owned RFC 6455 rule is broken,
// and a rejection names a rule that is actually broken.
func C03_checkheader_exact() {
	h := vHeader()
	s := State(vU8("state"))
	vAssume(s <= 15)
	server := s&StateServerSide != 0
	client := s&StateClientSide != 0
	ext := s&StateExtended != 0
	frag := s&StateFragmented != 0
	op := byte(h.OpCode)
	reserved := vOr(vIn(op, 3, 7), vIn(op, 0xb, 0xf))
	control := op&8 != 0
	rOverflow := vAnd(control, h.Length > 125)
	rNotFinal := vAnd(control, !h.Fin)
	rRsv := vAnd(h.Rsv != 0, !ext)
	rMaskReq := vAnd(server, !h.Masked)
	rMaskUnexp := vAnd(client, h.Masked)
	rContExpected := vAnd(frag, vAnd(!control, op != 0))
	rContUnexpected := vAnd(!frag, op == 0)
	anyBroken := vOr(reserved, vOr(rOverflow, vOr(rNotFinal, vOr(rRsv, vOr(rMaskReq, vOr(rMaskUnexp, vOr(rContExpected, rContUnexpected)))))))
	err := CheckHeader(h, s)
	vAssert((err == nil) == !anyBroken, "check.accept_iff_valid")
	if err != nil {
		named := vIteBool(err == ErrProtocolOpCodeReserved, reserved,
			vIteBool(err == ErrProtocolControlPayloadOverflow, rOverflow,
				vIteBool(err == ErrProtocolControlNotFinal, rNotFinal,
					vIteBool(err == ErrProtocolNonZeroRsv, rRsv,
						vIteBool(err == ErrProtocolMaskRequired, rMaskReq,
							vIteBool(err == ErrProtocolMaskUnexpected, rMaskUnexp,
								vIteBool(err == ErrProtocolContinuationExpected, rContExpected,
									vIteBool(err == ErrProtocolContinuationUnexpected, rContUnexpected, false))))))))
		vAssert(named, "check.names_broken_rule")
		_, isProto := err.(ProtocolError)
		vAssert(isProto, "check.protocol_error_type")
	}
	// opcode predicates
	oc := h.OpCode
	vAssert(oc.IsControl() == control, "opcode.control")
	vAssert(oc.IsData() == !control, "opcode.data")
	vAssert(oc.IsReserved() == reserved, "opcode.reserved")
}
