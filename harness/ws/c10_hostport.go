//go:build verif

package ws

import (
	"bytes"
	"context"
	"net"
	"net/url"
)

// C10_hostport: ws/wss URLs are dialed at host:port with defaults 80/443; TLS gets the host name.
func C10_hostport() {
	if vChoose("level", 2) == 0 {
		// unit: any host of <= 5 bytes over [a . : [ ]]
		n := 1 + vChoose("n", 5)
		h := make([]byte, n)
		for i := range h {
			h[i] = []byte{'a', '.', ':', '[', ']', '1'}[vChoose("c", 6)]
		}
		host := string(h)
		name, addr := hostport(host, ":80")
		colon := bytes.LastIndexByte(h, ':')
		bracket := bytes.IndexByte(h, ']')
		hasPort := colon > bracket
		if hasPort {
			vAssert(vAnd(addr == host, name == host[:colon]), "hostport.explicit_port_kept")
		} else {
			vAssert(vAnd(addr == host+":80", name == host), "hostport.default_port_added")
		}
		return
	}
	hosts := []string{"example.com", "example.com:8080", "[::1]", "[::1]:9000", "1.2.3.4:1"}
	i := vChoose("host", len(hosts))
	tls := vChoose("tls", 2) == 1
	scheme, def := "ws", ":80"
	if tls {
		scheme, def = "wss", ":443"
	}
	wantAddr := []string{"example.com" + def, "example.com:8080", "[::1]" + def, "[::1]:9000", "1.2.3.4:1"}[i]
	wantName := []string{"example.com", "example.com", "[::1]", "[::1]", "1.2.3.4"}[i]
	var gotNet, gotAddr, gotName string
	d := Dialer{
		NetDial: func(ctx context.Context, network, addr string) (net.Conn, error) {
			gotNet, gotAddr = network, addr
			return &vNetConn{}, nil
		},
		TLSClient: func(c net.Conn, hostname string) net.Conn { gotName = hostname; return c },
	}
	conn, err := d.dial(context.Background(), &url.URL{Scheme: scheme, Host: hosts[i], Path: "/"})
	vAssert(vAnd(err == nil, conn != nil), "dial.ok")
	vAssert(vAnd(gotNet == "tcp", gotAddr == wantAddr), "dial.address")
	if tls {
		vAssert(gotName == wantName, "dial.tls_hostname")
	} else {
		vAssert(gotName == "", "dial.no_tls_for_ws")
	}
	_, err = d.dial(context.Background(), &url.URL{Scheme: "http", Host: "x"})
	vAssert(err != nil, "dial.other_scheme_refused")
}
