//go:build verif

package ws

// C01_roundtrip_noconsume: decode(encode(h)) == h, consuming exactly HeaderSize bytes,
// for any transport chunking; bytes after the header are untouched.
func C01_roundtrip_noconsume() {
	h := vHeader()
	w := &vRec{}
	if err := WriteHeader(w, h); err != nil {
		vAssert(false, "rt.encode")
		return
	}
	hs := len(w.b)
	k := vChoose("tail", 3)
	tail := vBytes("tail", k)
	src := &vSrc{data: append(append([]byte{}, w.b...), tail...), name: "chunk"}
	got, err := ReadHeader(src)
	vAssert(err == nil, "rt.noerr")
	vAssert(vHeaderEq(h, got), "rt.same")
	vAssert(src.pos == hs, "rt.consumed")
	vAssert(hs == HeaderSize(h), "rt.size")
	vAssert(vEqBytes(src.data[hs:], tail), "rt.tail")
	vTrace("consumed", uint64(src.pos))
}
