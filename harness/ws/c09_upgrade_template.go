//go:build verif

package ws

import "io"

// C09_upgrade_template: Upgrader.Upgrade succeeds exactly for compliant requests and answers
// with the right 101 / error response.  One element of the request is perturbed per path;
// the perturbed element carries symbolic bytes.
func C09_upgrade_template() {
	// environment: one variation at a time (pairwise with the perturbation below)
	env := vChoose("env", 7)
	eol := "\r\n"
	if env == 1 {
		eol = "\n"
	}
	method := []byte("GET")
	version := []byte("HTTP/1.1")
	host := "Host: example.com"
	upgrade := "Upgrade: websocket"
	connection := "Connection: Upgrade"
	secver := "Sec-WebSocket-Version: 13"
	key := vKeys[0]
	if env == 2 {
		key = vKeys[1]
	}
	seckey := "Sec-WebSocket-Key: " + key
	var extra []string
	compliant := true      // request satisfies RFC 6455 §4.2.1 as restated in the property
	determinate := true    // oracle decides (false: left open by the property)
	wellformedLine := true // request line parses
	wantStatus := 0        // expected built-in failure status (0: not asserted)
	var hostLine, upgradeLine, connLine, verLine, keyLine []byte
	hostLine, upgradeLine, connLine, verLine, keyLine = []byte(host), []byte(upgrade), []byte(connection), []byte(secver), []byte(seckey)
	drop := -1
	dup := -1
	scenario := vChoose("scenario", 2) // 0: perturbed request, no objecting callback; 1: compliant request, callbacks
	perturb := 0
	if scenario == 0 {
		perturb = 1 + vChoose("perturb", 9)
	}
	target := []byte("/chat?x=1")
	switch perturb {
	case 0: // nothing
	case 9: // the request target: other forms, or two arbitrary bytes (the callback sees it as sent)
		switch vChoose("target", 4) {
		case 0:
			target = []byte("/")
		case 1:
			target = []byte("http://example.com/chat?a=b&c=%20")
		case 2:
			target = []byte("*")
		case 3:
			t := vBytes("target", 2)
			for _, c := range t {
				vAssume(vAnd(c != ' ', vAnd(c != '\r', c != '\n')))
			}
			target = append([]byte("/"), t...)
		}
	case 1: // method: three arbitrary bytes
		method = vBytes("method", 3)
		for _, c := range method {
			vAssume(vAnd(c != ' ', vAnd(c != '\r', c != '\n')))
		}
		isGet := vEqBytes(method, []byte("GET"))
		compliant = vConcrete(vIte(isGet, 1, 0)) == 1
		wantStatus = 405
	case 2: // version digits
		d1, d2 := vU8("vmaj"), vU8("vmin")
		vAssume(vAnd(d1 != ' ', vAnd(d1 != '\r', vAnd(d1 != '\n', d1 != '.'))))
		vAssume(vAnd(d2 != ' ', vAnd(d2 != '\r', vAnd(d2 != '\n', d2 != '.'))))
		version = []byte{'H', 'T', 'T', 'P', '/', d1, '.', d2}
		digits := vAnd(vIn(d1, '0', '9'), vIn(d2, '0', '9'))
		wellformedLine = vConcrete(vIte(digits, 1, 0)) == 1
		good := vAnd(d1 == '1', vIn(d2, '1', '9'))
		compliant = vConcrete(vIte(good, 1, 0)) == 1
		wantStatus = 505
	case 3: // Host
		switch vChoose("host", 5) {
		case 0:
			drop = 0
			compliant = false
			wantStatus = 400
		case 1:
			hostLine = []byte("hOsT:example.com")
		case 2:
			hostLine = []byte("Host: \t example.com \t")
		case 3:
			dup = 0
		case 4:
			hostLine = []byte("Host:")
			determinate = false // empty Host value: left open
		}
	case 4: // Upgrade
		switch vChoose("upgrade", 4) {
		case 0:
			drop = 1
			compliant = false
			wantStatus = 400
		case 1: // arbitrary letter case of the token
			v := []byte("websocket")
			for i := range v {
				if vBool("case") {
					v[i] ^= 0x20
				}
			}
			upgradeLine = append([]byte("uPGRADE: "), v...)
		case 2: // one arbitrary byte appended / replaced
			v := []byte("websocket")
			i := vChoose("pos", len(v))
			c := vU8("c")
			vAssume(vAnd(c != '\r', vAnd(c != '\n', vAnd(c != ' ', c != '\t'))))
			same := (c | 0x20) == (v[i] | 0x20)
			isLetter := vIn(c|0x20, 'a', 'z')
			v[i] = c
			upgradeLine = append([]byte("Upgrade: "), v...)
			compliant = vConcrete(vIte(vAnd(same, isLetter), 1, 0)) == 1
			wantStatus = 400
		case 3:
			upgradeLine = []byte("Upgrade: websocket2")
			compliant = false
			wantStatus = 400
		}
	case 5: // Connection
		switch vChoose("connection", 7) {
		case 6: // two arbitrary list characters around the token text: "<c1><c2>Upgrade" / "upgrade<c1><c2>"
			// (no blank inside an element: "x Upgrade" is not a well-formed list and is left open)
			alpha := []byte{'x', '-', ',', '.', 'U'}
			c1, c2 := alpha[vChoose("c1", len(alpha))], alpha[vChoose("c2", len(alpha))]
			v := string([]byte{c1, c2}) + "Upgrade"
			if vChoose("suffix", 2) == 1 {
				v = "upgrade" + string([]byte{c1, c2})
			}
			connLine = []byte("Connection: " + v)
			compliant = vHasUpgradeToken(v)
			wantStatus = 400
		case 0:
			drop = 2
			compliant = false
			wantStatus = 400
		case 1:
			connLine = []byte("connection: keep-alive, Upgrade")
		case 2:
			connLine = []byte("Connection: uPgRaDe , foo")
		case 3:
			connLine = []byte("Connection: keep-alive")
			compliant = false
			wantStatus = 400
		case 4:
			connLine = []byte("Connection: Upgradex, xupgrade")
			compliant = false
			wantStatus = 400
		case 5:
			connLine = []byte("Connection: a,b,c,d, upgrade")
		}
	case 6: // Sec-WebSocket-Version
		switch vChoose("version", 6) {
		case 4: // three arbitrary bytes: never the two bytes "13" (leading zeros included)
			v := vBytes("ver3", 3)
			for _, c := range v {
				vAssume(vAnd(c != '\r', vAnd(c != '\n', vAnd(c != ' ', c != '\t'))))
			}
			verLine = append([]byte("Sec-WebSocket-Version: "), v...)
			compliant = false
			wantStatus = 426
		case 5: // a decimal number equal to 13 modulo 2^64
			verLine = []byte("Sec-WebSocket-Version: 18446744073709551629")
			compliant = false
			wantStatus = 426
		case 0:
			drop = 3
			compliant = false
			wantStatus = 400
		case 1: // two arbitrary bytes
			v := vBytes("ver", 2)
			for _, c := range v {
				vAssume(vAnd(c != '\r', vAnd(c != '\n', vAnd(c != ' ', c != '\t'))))
			}
			verLine = append([]byte("Sec-Websocket-Version: "), v...)
			compliant = vConcrete(vIte(vEqBytes(v, []byte("13")), 1, 0)) == 1
			wantStatus = 426
		case 2:
			verLine = []byte("sec-websocket-version:\t13 ")
		case 3:
			verLine = []byte("Sec-WebSocket-Version: 130")
			compliant = false
			wantStatus = 426
		}
	case 7: // Sec-WebSocket-Key
		switch vChoose("seckey", 6) {
		case 0:
			drop = 4
			compliant = false
			wantStatus = 400
		case 1:
			keyLine = []byte("Sec-WebSocket-Key: " + key[:23])
			compliant = false
			wantStatus = 400
		case 2:
			keyLine = []byte("Sec-WebSocket-Key: " + key + "=")
			compliant = false
			wantStatus = 400
		case 3:
			keyLine = []byte("SEC-WEBSOCKET-KEY:  " + key + " ")
		case 4: // sent twice, one of them not 24 characters long: "always refused"
			keyLine = []byte("Sec-WebSocket-Key: " + key + eol + "Sec-WebSocket-Key: " + key[:23])
			compliant = false
			wantStatus = 400
		case 5:
			keyLine = []byte("Sec-WebSocket-Key: " + key + "=" + eol + "Sec-WebSocket-Key: " + key)
			compliant = false
			wantStatus = 400
		}
	case 8: // an unknown header, possibly without a colon
		if vChoose("extra", 2) == 0 {
			extra = append(extra, "X-Unknown: whatever")
		} else {
			extra = append(extra, "this line has no colon")
			compliant = false
			wantStatus = 400
		}
	}
	// callbacks: at most one objects
	var u Upgrader
	objected := false
	cbStatus := 0
	noReason := false
	reject := func() error {
		objected = true
		if cbStatus == 500 {
			return vRejectErr{}
		}
		if cbStatus == 403 && noReason { // a rejection without a reason: the error text, hence the body, is empty
			return RejectConnectionError(RejectionStatus(cbStatus), RejectionHeader(HandshakeHeaderString("X-Why: because\r\n")))
		}
		if cbStatus == 0 { // a rejection that names no status
			return RejectConnectionError(RejectionReason("nope"), RejectionHeader(HandshakeHeaderString("X-Why: because\r\n")))
		}
		return RejectConnectionError(RejectionStatus(cbStatus), RejectionReason("nope"), RejectionHeader(HandshakeHeaderString("X-Why: because\r\n")))
	}
	cb := 0
	if scenario == 1 {
		cb = vChoose("callback", 5)
	}
	if cb > 0 {
		cbStatus = []int{403, 500, 0}[vChoose("cbstatus", 3)]
		noReason = cbStatus == 403 && vChoose("noreason", 2) == 1
	}
	var sawURI, sawHost []byte
	u.OnRequest = func(uri []byte) error {
		sawURI = append([]byte{}, uri...)
		if cb == 1 {
			return reject()
		}
		return nil
	}
	u.OnHost = func(h []byte) error {
		sawHost = append([]byte{}, h...)
		if cb == 2 {
			return reject()
		}
		return nil
	}
	u.OnHeader = func(k, v []byte) error {
		if cb == 3 {
			return reject()
		}
		return nil
	}
	u.OnBeforeUpgrade = func() (HandshakeHeader, error) {
		if cb == 4 {
			return nil, reject()
		}
		return HandshakeHeaderString("X-Before: yes\r\n"), nil
	}
	u.Header = HandshakeHeaderString("X-Extra: 1\r\n")
	switch vChoose("headerform", 3) { // the same caller header in the other forms the option accepts
	case 1:
		u.Header = HandshakeHeaderBytes("X-Extra: 1\r\n")
	case 2:
		u.Header = HandshakeHeaderFunc(func(w io.Writer) (int64, error) {
			n1, _ := w.Write([]byte("X-Extra: "))
			n2, err := w.Write([]byte("1\r\n"))
			return int64(n1 + n2), err
		})
	}
	if cb == 3 && len(extra) == 0 {
		extra = append(extra, "X-Unknown: whatever")
	}
	// assemble
	var req []byte
	req = append(req, method...)
	req = append(req, ' ')
	req = append(req, target...)
	req = append(req, ' ')
	req = append(req, version...)
	req = append(req, eol...)
	lines := [][]byte{hostLine, upgradeLine, connLine, verLine, keyLine}
	order := 0
	if env == 3 {
		order = 1
	}
	for n := range lines {
		i := n
		if order == 1 {
			i = len(lines) - 1 - n
		}
		if i == drop {
			continue
		}
		req = append(req, lines[i]...)
		req = append(req, eol...)
		if i == dup {
			req = append(req, lines[i]...)
			req = append(req, eol...)
		}
	}
	for _, e := range extra {
		req = append(req, e...)
		req = append(req, eol...)
	}
	if env == 6 { // line-by-line delivery ending with a long header: refills slide over parsed bytes
		req = append(req, "X-Pad: pppppppppppppppppppppppppppppppppppppppppppppppppppppppppppppppppppppppppppppppppppppppppppppppppppppppppppppppppppppppppppppppppppppppppppppppppppppp"...)
		req = append(req, eol...)
	}
	req = append(req, eol...)
	conn := &vConn{in: req, one: env == 4, lines: env == 6}
	if env == 5 {
		u.ReadBufferSize = 256
	}
	hs, err := u.Upgrade(conn)
	_ = hs
	if !determinate {
		return
	}
	r := vParseResp(conn.out)
	if !wellformedLine {
		vAssert(err != nil, "upgrade.malformed_line_fails")
		vAssert(!(r.ok && r.status == 101), "upgrade.no_101_on_malformed_line")
		return
	}
	success := compliant && !objected
	// a callback can only object if it is reached: a non-compliant request line stops earlier
	vAssert((err == nil) == success, "upgrade.success_iff_compliant_and_not_objected")
	if err == nil {
		vAssert(vAnd(r.ok, r.status == 101), "upgrade.101_written")
		acc, n := r.get("Sec-WebSocket-Accept")
		vAssert(vAnd(n == 1, acc == string(vAccept([]byte(key)))), "upgrade.accept_is_sha1_of_key")
		up, _ := r.get("Upgrade")
		co, _ := r.get("Connection")
		vAssert(vAnd(up == "websocket", co == "Upgrade"), "upgrade.101_headers")
		x1, _ := r.get("X-Extra")
		x2, _ := r.get("X-Before")
		vAssert(vAnd(x1 == "1", x2 == "yes"), "upgrade.caller_headers_present")
		vAssert(vAnd(len(r.body) == 0, vEqBytes(sawURI, target)), "upgrade.no_body_and_uri_seen")
		_ = sawHost
		return
	}
	vAssert(r.ok, "upgrade.error_response_written")
	if !r.ok {
		return
	}
	vAssert(r.status != 101, "upgrade.no_101_on_failure")
	if objected && compliant {
		if cbStatus == 0 {
			vAssert(vAnd(r.status >= 400, r.status <= 599), "upgrade.rejection_without_status_is_an_http_error")
		} else {
			vAssert(r.status == cbStatus, "upgrade.callback_status")
		}
		if cbStatus != 500 {
			why, _ := r.get("X-Why")
			vAssert(why == "because", "upgrade.callback_header_present")
		}
	} else if !objected && wantStatus != 0 {
		vAssert(r.status == wantStatus, "upgrade.builtin_status")
		if wantStatus == 426 {
			v, _ := r.get("Sec-WebSocket-Version")
			vAssert(v == "13", "upgrade.426_names_version_13")
		}
	}
	x1, _ := r.get("X-Extra")
	vAssert(x1 == "1", "upgrade.caller_header_on_error")
	cl, n := r.get("Content-Length")
	want := 0
	for _, c := range []byte(cl) {
		want = want*10 + int(c-'0')
	}
	digits := len(cl) > 0
	for _, c := range []byte(cl) {
		digits = digits && c >= '0' && c <= '9'
	}
	vAssert(digits, "upgrade.content_length_is_a_number")
	vAssert(vAnd(n == 1, want == len(r.body)), "upgrade.content_length_matches_body")
	vAssert(string(r.body) == err.Error(), "upgrade.body_is_error_text")
}
