//go:build verif

package ws

import (
	"context"
	"net"
	"runtime"
	"time"
)

// C20_dial_cancellation: cancellation / expiry / dial timeout at any I/O operation, any
// interleaving of the context watcher with the handshake, responsive and silent peers.
func C20_dial_cancellation() {
	// natively the scenario is repeated (same inputs) while its outcome may depend on the
	// scheduler: with GOMAXPROCS(1) the watcher often first runs when Dial already waits for it
	retry := 1
	vRetry(40, func() {
		if retry > 1 && !vSymbolic() {
			defer runtime.GOMAXPROCS(runtime.GOMAXPROCS(1))
			vLateWatcher = true
			defer func() { vLateWatcher = false }()
		}
		retry++
		vC20Scenario()
		if vTheConn != nil && vTheConn.silent {
			vRetryStop() // a silent peer's outcome does not depend on the schedule, and it takes real time
		}
	})
}

func vC20Scenario() {
	vRandConcrete(true)
	vClock, vTimers, vTheConn = 0, nil, nil
	vRealStart = time.Now()
	// configuration
	// the configuration and the cancellation point are solver variables
	ctxKind := int(vU8("ctx")) // 0 background, 1 cancellable (no deadline), 2 deadline 20ms, 3 deadline 80ms
	vAssume(ctxKind <= 3)
	timeout := int64(0) // dial timeout in ms (0 = none)
	if vBool("hastimeout") {
		timeout = 40
	}
	// a NEGATIVE dial timeout: a budget that has already run out (time.Until(end) after the end):
	// the dial timeout has elapsed before Dial starts
	neg := vBool("negativetimeout")
	if neg {
		timeout = -1
	}
	silent := vBool("silentpeer")
	partial := vBool("partialpeer") // a silent peer that first sends the status line and half a header line
	vAssume(!partial || silent)
	blockWrite := vBool("peernotreading") // a silent peer that does not even read the request
	vAssume(!blockWrite || (silent && !partial))
	// a wss dial: TLS on top of the connection (default tls.Client).  With peers that never answer
	// the client's hello the TLS handshake is the write and the read that block
	useTLS := vBool("tls")
	vAssume(!useTLS || (silent && !partial))
	vTLSShaken = false
	refuse := vBool("refusepeer") // the peer answers 400: a handshake failure that is not a timeout
	vAssume(!(silent && refuse))
	cancelAt := vInt("cancelat")                 // cancel right before connection operation #cancelAt (-1: never)
	vAssume(vAnd(cancelAt >= -2, cancelAt <= 5)) // -2: already cancelled before connecting
	if ctxKind != 1 {
		vAssume(cancelAt == -1)
	}
	// a silent peer with nothing that could ever end the wait is outside the property
	// (with a silent peer only the request write (#0) and the first read (#1) ever happen, so a
	// cancellation tied to a later operation never fires)
	// — #1 never *completes*, so a cancellation at its end does not fire either)
	late := vBool("cancellate")
	// natively only: keep the watcher inside its poisoning call while the handshake finishes (the
	// engine explores that interleaving anyway; the flag makes it deterministic on replay)
	hold := vBool("holdwatcher")
	vAssume(!hold || (!silent && ctxKind == 1 && cancelAt >= 0 && !late))
	bounded := timeout != 0 || ctxKind >= 2 || cancelAt == -2 || cancelAt == 0 || (cancelAt == 1 && !late)
	if blockWrite {
		// the request write (#0) is the operation that never completes
		bounded = timeout > 0 || ctxKind >= 2 || cancelAt == -2 || (cancelAt == 0 && !late)
	}
	// (a partial peer completes the first read: the blocked one is #2)
	bounded = bounded || (partial && ((cancelAt == 1 && late) || (cancelAt == 2 && !late)))
	if silent && !bounded {
		vAssume(false)
	}
	vAssume(!neg || (silent && !partial && !blockWrite && !useTLS && ctxKind <= 1 && cancelAt == -1 && !hold))
	var ctx context.Context = context.Background()
	var root *vCtx
	if ctxKind != 0 {
		root = vNewCtx()
		ctx = root
		if ctxKind >= 2 {
			d := []int64{20, 80}[ctxKind-2] * vUnit()
			root.setDeadline(vTimeAt(d))
			if vSymbolic() {
				vTimers = append(vTimers, &vTimer{at: d, fire: func() { root.cancel(context.DeadlineExceeded) }})
			}
		}
	}
	conn := &vDConn{cancelAt: cancelAt, cancelLate: late, ctx: root, silent: silent, blockWrite: blockWrite, partial: partial, refuse: refuse, hold: hold}
	vTheConn = conn
	if cancelAt == -2 && root != nil {
		root.cancel(context.Canceled)
	}
	// a NetDial that does not look at the context (or completes just as the context ends) hands
	// back an established connection although the context is over
	ignore := vBool("netdialignoresctx")
	vAssume(!ignore || cancelAt == -2)
	// the connect phase takes 25 of the scenario's milliseconds (only where nothing can end the
	// context meanwhile): the dial timeout covers connect AND handshake
	slow := vBool("slowconnect")
	vAssume(!slow || (ctxKind <= 1 && cancelAt != -2))
	dialed := false
	d := Dialer{Timeout: time.Duration(timeout * vUnit()), NetDial: func(dctx context.Context, network, addr string) (net.Conn, error) {
		// like net.Dialer: an already-ended context fails the dial
		if err := dctx.Err(); err != nil && !ignore {
			return nil, err
		}
		if slow {
			if vSymbolic() {
				vClock += 25 * vUnit()
			} else {
				time.Sleep(time.Duration(25 * vUnit()))
			}
		}
		dialed = true
		return conn, nil
	}}
	var err error
	var got net.Conn
	vCallBounded("dial.returns_once_context_or_timeout_ends", func() {
		u := "ws://example.com/"
		if useTLS {
			u = "wss://example.com/"
		}
		got, _, _, err = d.Dial(ctx, u)
	}, func() {
		if root != nil {
			root.cancel(context.Canceled)
		}
		conn.mu.Lock()
		conn.dl, conn.wdl = time.Unix(1, 0), time.Unix(1, 0)
		conn.mu.Unlock()
	})
	elapsed := vNowNs()
	conn.mu.Lock()
	conn.returned = true
	conn.mu.Unlock()
	if vSymbolic() {
		// (d) the watcher goroutine has finished by the time Dial returns
		vAssert(vThreads() == 1, "dial.watcher_finished_at_return")
	} else {
		// natively a still-running watcher is visible only through what it does: a connection
		// operation that completes after Dial returned (the "holdwatcher" phase makes that
		// deterministic when the watcher is inside its poisoning call)
		time.Sleep(5 * time.Millisecond)
		conn.mu.Lock()
		after := conn.opsAfter
		conn.mu.Unlock()
		vAssert(after == 0, "dial.watcher_finished_at_return")
	}
	conn.mu.Lock()
	dl, wdl, closed, opsAfter := conn.dl, conn.wdl, conn.closed, conn.opsAfter
	conn.mu.Unlock()
	if !dialed {
		// dial-phase cancellation: the context's error, no connection, nothing touched
		vAssert(vAnd(err != nil, got == nil), "dial.cancelled_before_connecting_fails")
		if neg {
			vAssert(err == context.DeadlineExceeded, "dial.elapsed_timeout_reports_deadline_exceeded")
		} else {
			vAssert(vAnd(root != nil, err == context.Canceled), "dial.cancelled_before_connecting_reports_context_error")
		}
		vAssert(conn.ops == 0, "dial.cancelled_before_connecting_touches_nothing")
		return
	}
	ek := uint64(4)
	switch {
	case err == nil:
		ek = 0
	case err == context.Canceled:
		ek = 1
	case err == context.DeadlineExceeded:
		ek = 2
	}
	if _, raw := err.(vTimeoutErr); raw {
		ek = 3
	}
	vTrace("errkind", ek)
	if refuse {
		vAssert(err != nil, "dial.refused_handshake_is_error")
	}
	// (natively only for contexts ended by the scenario's own cancellation, which is tied to a
	// connection operation: a real-time deadline may also fire between Dial's return and this
	// line, which says nothing about Dial)
	if dialed && root != nil && root.Err() != nil && !refuse && (vSymbolic() || ctxKind == 1) {
		// the context ended while Dial was at work (nothing in this harness ends it after the last
		// connection operation): whatever the handshake did — timed out on the poisoned
		// connection, or even completed — the error is a context error
		vAssert(ek == 1 || ek == 2, "dial.ended_context_reports_context_error")
	}
	if !silent && !refuse && cancelAt == -1 && (vSymbolic() || (ctxKind <= 1 && timeout == 0)) {
		// nothing ends the context and the peer answers at once (logical time does not advance
		// while threads can run): the handshake must simply succeed
		vAssert(err == nil, "dial.undisturbed_handshake_succeeds")
	}
	if err == nil {
		// (a) success: deadlines left cleared, conn never touched again
		vAssert(got == net.Conn(conn), "dial.success_returns_conn")
		vAssert(vAnd(dl.IsZero(), wdl.IsZero()), "dial.success_leaves_deadline_cleared")
		vAssert(!closed, "dial.success_does_not_close")
	} else {
		// (b) failure: the connection was closed
		vAssert(closed, "dial.error_closes_conn")
		// (c) a context that has ended is reported as such, not as a raw i/o timeout
		if root != nil && root.Err() != nil {
			_, rawTimeout := err.(vTimeoutErr)
			vAssert(!rawTimeout, "dial.context_error_not_raw_timeout")
		}
	}
	vAssert(opsAfter == 0, "dial.conn_untouched_after_return")
	// (e) with a silent peer Dial returns once the context ends or the dial timeout elapses,
	// whichever is first (5 ms of slack natively)
	if silent {
		bound := int64(-1)
		if timeout > 0 {
			bound = timeout * vUnit()
		}
		if ctxKind >= 2 {
			if cd := []int64{20, 80}[ctxKind-2] * vUnit(); bound < 0 || cd < bound {
				bound = cd
			}
		}
		if bound >= 0 {
			slack := int64(0)
			if !vSymbolic() {
				slack = 150 * vMs
			}
			vAssert(elapsed <= bound+slack, "dial.returns_by_earliest_of_timeout_and_deadline")
			vAssert(err != nil, "dial.silent_peer_is_error")
		}
	}
}
