//go:build verif

package ws

// vB64Val: reference base64 alphabet (RFC 4648 §4) value of a character, 64 if not in the alphabet.
func vB64Val(c byte) uint64 {
	return vIte(vIn(c, 'A', 'Z'), uint64(c-'A'),
		vIte(vIn(c, 'a', 'z'), uint64(c-'a')+26,
			vIte(vIn(c, '0', '9'), uint64(c-'0')+52,
				vIte(c == '+', 62, vIte(c == '/', 63, 64)))))
}

// vIsKey16: the 24 characters are the canonical base64 form of some 16 bytes.
func vIsKey16(k []byte) bool {
	if len(k) != 24 {
		return false
	}
	ok := true
	for i := 0; i < 22; i++ {
		ok = vAnd(ok, vB64Val(k[i]) < 64)
	}
	// 16 bytes = 21 full sextets + 2 bits: the 22nd character carries 2 data bits, low 4 zero
	ok = vAnd(ok, vB64Val(k[21])&0xf == 0)
	return vAnd(ok, vAnd(k[22] == '=', k[23] == '='))
}
