//go:build verif

package ws

import (
	"bytes"
	"context"
	"net"
	"net/url"

	"github.com/gobwas/httphead"
)

// vB64Val: reference base64 alphabet (RFC 4648 §4) value of a character, 64 if not in the alphabet.
func vB64Val(c byte) uint64 {
	return vIte(vIn(c, 'A', 'Z'), uint64(c-'A'),
		vIte(vIn(c, 'a', 'z'), uint64(c-'a')+26,
			vIte(vIn(c, '0', '9'), uint64(c-'0')+52,
				vIte(c == '+', 62, vIte(c == '/', 63, 64)))))
}

// vIsKey16: the 24 characters are the canonical base64 form of some 16 bytes.
func vIsKey16(k []byte) bool {
	if len(k) != 24 {
		return false
	}
	ok := true
	for i := 0; i < 22; i++ {
		ok = vAnd(ok, vB64Val(k[i]) < 64)
	}
	// 16 bytes = 21 full sextets + 2 bits: the 22nd character carries 2 data bits, low 4 zero
	ok = vAnd(ok, vB64Val(k[21])&0xf == 0)
	return vAnd(ok, vAnd(k[22] == '=', k[23] == '='))
}

// C10_request_wellformed: the upgrade request is a well-formed GET with every mandatory header
// exactly once, a key that is base64 of 16 bytes, and the configured lists.
func C10_request_wellformed() {
	var d Dialer
	u := &url.URL{Scheme: "ws", Host: "example.com:8080", Path: "/chat", RawQuery: "x=1"}
	wantURI := "/chat?x=1"
	switch vChoose("url", 6) {
	case 3: // a path that needs escaping: the request-URI carries the escaped form
		u = &url.URL{Scheme: "ws", Host: "h", Path: "/chat room/x", RawQuery: "q=a%20b"}
		wantURI = "/chat%20room/x?q=a%20b"
	case 4: // an explicit raw path whose escaping differs from the default one
		u = &url.URL{Scheme: "ws", Host: "h", Path: "/a/b/c?d", RawPath: "/a%2Fb/c%3Fd"}
		wantURI = "/a%2Fb/c%3Fd"
	case 5: // opaque form and a bare '?'
		u = &url.URL{Scheme: "ws", Host: "h", Path: "/p", ForceQuery: true}
		wantURI = "/p?"
	case 1:
		u = &url.URL{Scheme: "wss", Host: "[::1]", Path: "/"}
		wantURI = "/"
	case 2:
		u = &url.URL{Scheme: "ws", Host: "h", Path: ""}
		wantURI = "/"
	}
	wantHost := u.Host
	if vChoose("hostoverride", 2) == 1 {
		d.Host = "override.example"
		wantHost = d.Host
	}
	np := vChoose("protocols", 3)
	d.Protocols = []string{"chat", "superchat"}[:np]
	nx := vChoose("extensions", 3)
	d.Extensions = []httphead.Option{
		httphead.NewOption("permessage-deflate", map[string]string{"client_max_window_bits": "10"}),
		httphead.NewOption("x-ext", nil),
	}[:nx]
	if vChoose("header", 2) == 1 {
		d.Header = HandshakeHeaderString("X-Custom: 7\r\n")
	}
	srv := &vServer{resp: func(key []byte) []byte { return nil }}
	d.Upgrade(srv, u) // fails at EOF; only the request matters here
	r := vParseReq(srv.out)
	vAssert(r.ok, "req.wellformed_head")
	if !r.ok {
		return
	}
	vAssert(r.line == "GET "+wantURI+" HTTP/1.1", "req.request_line")
	for _, hv := range [][2]string{{"Host", wantHost}, {"Upgrade", "websocket"}, {"Connection", "Upgrade"}, {"Sec-WebSocket-Version", "13"}} {
		v, n := r.get(hv[0])
		vAssert(vAnd(n == 1, string(v) == hv[1]), "req.mandatory_header_once_with_value")
	}
	k, n := r.get("Sec-WebSocket-Key")
	vAssert(n == 1, "req.key_once")
	vAssert(vIsKey16(k), "req.key_is_base64_of_16_bytes")
	p, n := r.get("Sec-WebSocket-Protocol")
	if np == 0 {
		vAssert(n == 0, "req.no_protocol_header")
	} else {
		vAssert(vAnd(n == 1, string(p) == []string{"", "chat", "chat, superchat"}[np]), "req.protocols_listed")
	}
	x, n := r.get("Sec-WebSocket-Extensions")
	if nx == 0 {
		vAssert(n == 0, "req.no_extensions_header")
	} else {
		// optional white space around separators is immaterial (RFC 7230 list syntax)
		xs := string(bytes.ReplaceAll(x, []byte(" "), nil))
		vAssert(vAnd(n == 1, xs == []string{"", "permessage-deflate;client_max_window_bits=10", "permessage-deflate;client_max_window_bits=10,x-ext"}[nx]), "req.extensions_listed")
	}
	c, n := r.get("X-Custom")
	if d.Header != nil {
		vAssert(vAnd(n == 1, string(c) == "7"), "req.custom_header")
	}
	vTraceBytes("key", k[22:])
}

// C10_response_template: the dialer succeeds exactly for a valid 101 answer.
func C10_response_template() {
	vRandConcrete(true)
	var d Dialer
	d.Protocols = []string{"chat", "superchat"}
	d.Extensions = []httphead.Option{httphead.NewOption("permessage-deflate", nil), httphead.NewOption("x-ext", nil)}
	version := []byte("HTTP/1.1")
	status := []byte("101")
	upgrade := "Upgrade: websocket"
	connection := "Connection: Upgrade"
	var acceptMut func(a []byte) []byte
	var extra []string
	valid := true
	determinate := true
	wantProto := ""
	wantExt := 0
	dropAccept := false
	env := vChoose("env", 4)
	switch vChoose("perturb", 9) {
	case 0:
	case 1: // version digits
		d1, d2 := vU8("vmaj"), vU8("vmin")
		vAssume(vAnd(d1 != ' ', vAnd(d1 != '\r', vAnd(d1 != '\n', d1 != '.'))))
		vAssume(vAnd(d2 != ' ', vAnd(d2 != '\r', vAnd(d2 != '\n', d2 != '.'))))
		version = []byte{'H', 'T', 'T', 'P', '/', d1, '.', d2}
		valid = vConcrete(vIte(vAnd(d1 == '1', vIn(d2, '1', '9')), 1, 0)) == 1
	case 2: // status token: three arbitrary bytes
		status = vBytes("status", 3)
		for _, c := range status {
			vAssume(vAnd(c != ' ', vAnd(c != '\r', c != '\n')))
		}
		valid = vConcrete(vIte(vEqBytes(status, []byte("101")), 1, 0)) == 1
	case 3: // status token of other lengths
		status = [][]byte{[]byte("1010"), []byte("0101"), []byte("10"), []byte("200")}[vChoose("statuslen", 4)]
		valid = false
		if string(status) == "0101" {
			determinate = false // leading zero: numerically 101, left open
		}
	case 4: // Upgrade
		switch vChoose("upgrade", 3) {
		case 0:
			upgrade = ""
			valid = false
		case 1:
			upgrade = "upgrade: WebSocket"
		case 2:
			upgrade = "Upgrade: websockets"
			valid = false
		}
	case 5: // Connection
		switch vChoose("connection", 3) {
		case 0:
			connection = ""
			valid = false
		case 1:
			connection = "CONNECTION:  upgrade "
		case 2:
			connection = "Connection: close"
			valid = false
		}
	case 6: // accept value
		switch vChoose("accept", 4) {
		case 0:
			dropAccept = true
			valid = false
		case 1: // one arbitrary byte at an arbitrary place
			i := vChoose("pos", 28)
			c := vU8("c")
			vAssume(vAnd(c != '\r', vAnd(c != '\n', vAnd(c != ' ', c != '\t'))))
			acceptMut = func(a []byte) []byte {
				same := vConcrete(vIte(a[i] == c, 1, 0)) == 1
				valid = same
				a[i] = c
				return a
			}
		case 2:
			acceptMut = func(a []byte) []byte { return a[:27] }
			valid = false
		case 3:
			acceptMut = func(a []byte) []byte { return append(a, '=') }
			valid = false
		}
	case 7: // subprotocol
		switch vChoose("proto", 3) {
		case 0:
			extra = append(extra, "Sec-WebSocket-Protocol: superchat")
			wantProto = "superchat"
		case 1:
			extra = append(extra, "Sec-WebSocket-Protocol: other")
			valid = false
		case 2:
			extra = append(extra, "sec-websocket-protocol: chat")
			wantProto = "chat"
		}
	case 8: // extensions
		switch vChoose("ext", 3) {
		case 0:
			extra = append(extra, "Sec-WebSocket-Extensions: permessage-deflate; server_no_context_takeover")
			wantExt = 1
		case 1:
			extra = append(extra, "Sec-WebSocket-Extensions: x-ext, x-unknown")
			valid = false
		case 2:
			extra = append(extra, "Sec-WebSocket-Extensions: x-ext", "X-Other: 1")
			wantExt = 1
		}
	}
	srv := &vServer{}
	srv.resp = func(key []byte) []byte {
		var b []byte
		b = append(b, version...)
		b = append(b, ' ')
		b = append(b, status...)
		b = append(b, " Switching Protocols\r\n"...)
		acc := vAccept(key)
		if acceptMut != nil {
			acc = acceptMut(acc)
		}
		lines := []string{upgrade, connection}
		if !dropAccept {
			lines = append(lines, "Sec-WebSocket-Accept: "+string(acc))
		}
		lines = append(lines, extra...)
		if env == 1 { // reversed header order
			for i, j := 0, len(lines)-1; i < j; i, j = i+1, j-1 {
				lines[i], lines[j] = lines[j], lines[i]
			}
		}
		for _, l := range lines {
			if l == "" {
				continue
			}
			b = append(b, l...)
			b = append(b, "\r\n"...)
		}
		return append(b, "\r\n"...)
	}
	if env == 2 {
		srv.chunks = []int{1, 1, 1, 1, 1, 1, 1, 1, 1, 1, 1, 1, 1, 1, 1, 1, 1, 1, 1, 1}
	}
	if env == 3 {
		d.ReadBufferSize = 256
	}
	u := &url.URL{Scheme: "ws", Host: "example.com", Path: "/"}
	br, hs, err := d.Upgrade(srv, u)
	if !determinate {
		return
	}
	vAssert((err == nil) == valid, "resp.success_iff_valid_101")
	if err != nil {
		vAssert(br == nil, "resp.no_reader_on_error")
		return
	}
	vAssert(hs.Protocol == wantProto, "resp.protocol_is_servers")
	vAssert(len(hs.Extensions) == wantExt, "resp.extensions_are_servers")
	vAssert(br == nil, "resp.nothing_buffered_no_reader")
}

// C10_trailing_bytes: bytes the server sends right after the head stay readable once, in order.
func C10_trailing_bytes() {
	vRandConcrete(true)
	var d Dialer
	t := vChoose("t", 4)
	trailing := vBytes("trail", t)
	d.ReadBufferSize = []int{0, 256}[vChoose("rbuf", 2)]
	srv := &vServer{}
	var headLen int
	srv.resp = func(key []byte) []byte {
		b := []byte("HTTP/1.1 101 Switching Protocols\r\nUpgrade: websocket\r\nConnection: Upgrade\r\nSec-WebSocket-Accept: " + string(vAccept(key)) + "\r\n\r\n")
		headLen = len(b)
		return append(b, trailing...)
	}
	// delivery: everything at once / head then trailing / head+1 byte then rest
	switch vChoose("delivery", 3) {
	case 1:
		srv.chunks = []int{129}
	case 2:
		srv.chunks = []int{130}
	}
	u := &url.URL{Scheme: "ws", Host: "example.com", Path: "/"}
	br, _, err := d.Upgrade(srv, u)
	vAssert(err == nil, "trail.ok")
	if err != nil {
		return
	}
	_ = headLen
	var got []byte
	if br != nil {
		n := br.Buffered()
		vAssert(n > 0, "trail.reader_only_if_buffered")
		p, _ := br.Peek(n)
		got = append(got, p...)
		br.Discard(n)
		PutReader(br)
	}
	buf := make([]byte, 8)
	for i := 0; i < 8; i++ {
		n, err := srv.Read(buf)
		got = append(got, buf[:n]...)
		if err != nil {
			break
		}
	}
	vAssert(vEqBytes(got, trailing), "trail.every_byte_once_in_order")
}

// C10_hostport: ws/wss URLs are dialed at host:port with defaults 80/443; TLS gets the host name.
func C10_hostport() {
	if vChoose("level", 2) == 0 {
		// unit: any host of <= 5 bytes over [a . : [ ]]
		n := 1 + vChoose("n", 5)
		h := make([]byte, n)
		for i := range h {
			h[i] = []byte{'a', '.', ':', '[', ']', '1'}[vChoose("c", 6)]
		}
		host := string(h)
		name, addr := hostport(host, ":80")
		colon := bytes.LastIndexByte(h, ':')
		bracket := bytes.IndexByte(h, ']')
		hasPort := colon > bracket
		if hasPort {
			vAssert(vAnd(addr == host, name == host[:colon]), "hostport.explicit_port_kept")
		} else {
			vAssert(vAnd(addr == host+":80", name == host), "hostport.default_port_added")
		}
		return
	}
	hosts := []string{"example.com", "example.com:8080", "[::1]", "[::1]:9000", "1.2.3.4:1"}
	i := vChoose("host", len(hosts))
	tls := vChoose("tls", 2) == 1
	scheme, def := "ws", ":80"
	if tls {
		scheme, def = "wss", ":443"
	}
	wantAddr := []string{"example.com" + def, "example.com:8080", "[::1]" + def, "[::1]:9000", "1.2.3.4:1"}[i]
	wantName := []string{"example.com", "example.com", "[::1]", "[::1]", "1.2.3.4"}[i]
	var gotNet, gotAddr, gotName string
	d := Dialer{
		NetDial: func(ctx context.Context, network, addr string) (net.Conn, error) {
			gotNet, gotAddr = network, addr
			return &vNetConn{}, nil
		},
		TLSClient: func(c net.Conn, hostname string) net.Conn { gotName = hostname; return c },
	}
	conn, err := d.dial(context.Background(), &url.URL{Scheme: scheme, Host: hosts[i], Path: "/"})
	vAssert(vAnd(err == nil, conn != nil), "dial.ok")
	vAssert(vAnd(gotNet == "tcp", gotAddr == wantAddr), "dial.address")
	if tls {
		vAssert(gotName == wantName, "dial.tls_hostname")
	} else {
		vAssert(gotName == "", "dial.no_tls_for_ws")
	}
	_, err = d.dial(context.Background(), &url.URL{Scheme: "http", Host: "x"})
	vAssert(err != nil, "dial.other_scheme_refused")
}
