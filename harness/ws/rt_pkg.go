//go:build verif

package ws

func vPrepare()     {}
func vPoisonPools() {}
