//go:build verif

package ws

// C01_encode_layout: WriteHeader emits exactly the RFC 6455 §5.2 layout, HeaderSize agrees.
func C01_encode_layout() {
	h := vHeader()
	w := &vRec{}
	err := WriteHeader(w, h)
	vAssert(err == nil, "encode.noerr")
	b := w.b
	L := uint64(h.Length)
	// expected size
	exp := 2
	if L > 125 {
		exp = 4
	}
	if L > 65535 {
		exp = 10
	}
	lenBytes := exp
	if h.Masked {
		exp += 4
	}
	vAssert(len(b) == exp, "encode.size")
	vAssert(HeaderSize(h) == exp, "encode.headersize")
	if len(b) != exp {
		return
	}
	b0 := h.Rsv<<4 | byte(h.OpCode)
	if h.Fin {
		b0 |= 0x80
	}
	vAssert(b[0] == b0, "encode.byte0")
	var b1 byte
	switch lenBytes {
	case 2:
		b1 = byte(L)
	case 4:
		b1 = 126
		vAssert(vAnd(b[2] == byte(L>>8), b[3] == byte(L)), "encode.len16")
	case 10:
		b1 = 127
		ok := true
		for i := 0; i < 8; i++ {
			ok = vAnd(ok, b[2+i] == byte(L>>(8*uint(7-i))))
		}
		vAssert(ok, "encode.len64")
	}
	if h.Masked {
		b1 |= 0x80
		ok := true
		for i := 0; i < 4; i++ {
			ok = vAnd(ok, b[lenBytes+i] == h.Mask[i])
		}
		vAssert(ok, "encode.mask")
	}
	vAssert(b[1] == b1, "encode.byte1")
	vTraceBytes("hdr", b)
}

// C01_roundtrip_noconsume: decode(encode(h)) == h, consuming exactly HeaderSize bytes,
// for any transport chunking; bytes after the header are untouched.
func C01_roundtrip_noconsume() {
	h := vHeader()
	w := &vRec{}
	if err := WriteHeader(w, h); err != nil {
		vAssert(false, "rt.encode")
		return
	}
	hs := len(w.b)
	k := vChoose("tail", 3)
	tail := vBytes("tail", k)
	src := &vSrc{data: append(append([]byte{}, w.b...), tail...), name: "chunk"}
	got, err := ReadHeader(src)
	vAssert(err == nil, "rt.noerr")
	vAssert(vHeaderEq(h, got), "rt.same")
	vAssert(src.pos == hs, "rt.consumed")
	vAssert(hs == HeaderSize(h), "rt.size")
	vAssert(vEqBytes(src.data[hs:], tail), "rt.tail")
	vTrace("consumed", uint64(src.pos))
}

// C01_frame_io: ReadFrame/WriteFrame/CompileFrame = header codec + exactly Length payload bytes.
func C01_frame_io() {
	lens := []int{0, 1, 2, 3, 125, 126, 127}
	if vTier() > 0 {
		lens = append(lens, 65535, 65536)
	}
	L := lens[vChoose("L", len(lens))]
	var h Header
	h.Fin = vBool("fin")
	h.Rsv = vU8("rsv")
	h.OpCode = OpCode(vU8("op"))
	h.Masked = vBool("masked")
	h.Mask = [4]byte{vU8("m0"), vU8("m1"), vU8("m2"), vU8("m3")}
	vAssume(h.Rsv <= 7)
	vAssume(h.OpCode <= 15)
	h.Length = int64(L)
	var payload []byte
	if L <= 127 {
		payload = vBytes("p", L)
	} else {
		payload = make([]byte, L)
		payload[0], payload[L-1] = vU8("p0"), vU8("pl")
	}
	f := Frame{Header: h, Payload: payload}
	w := &vRec{}
	err := WriteFrame(w, f)
	vAssert(err == nil, "io.write.noerr")
	hw := &vRec{}
	WriteHeader(hw, h)
	hs := len(hw.b)
	vAssert(len(w.b) == hs+L, "io.write.size")
	if len(w.b) != hs+L {
		return
	}
	vAssert(vEqBytes(w.b[:hs], hw.b), "io.write.header")
	vAssert(vEqBytes(w.b[hs:], payload), "io.write.payload")
	c, err := CompileFrame(f)
	vAssert(err == nil, "io.compile.noerr")
	vAssert(vEqBytes(c, w.b), "io.compile.same")
	// read back, followed by two extra bytes which must stay unread
	extra := vBytes("x", 2)
	src := &vSrc{data: append(append([]byte{}, w.b...), extra...), name: "chunk", whole: L > 3}
	g, err := ReadFrame(src)
	vAssert(err == nil, "io.read.noerr")
	vAssert(vHeaderEq(h, g.Header), "io.read.header")
	vAssert(len(g.Payload) == L, "io.read.len")
	if len(g.Payload) == L {
		vAssert(vEqBytes(g.Payload, payload), "io.read.payload")
	}
	vAssert(src.pos == hs+L, "io.read.consumed")
	vTrace("total", uint64(len(w.b)))
}
