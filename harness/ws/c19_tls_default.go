//go:build verif

package ws

import (
	"crypto/tls"
)

// C19_tls_default: the TLS set-up of a wss dial (Dialer.tlsClient, the default when TLSClient is
// nil) for two sessions with different host names, with no TLSConfig, with a caller's config
// without a server name, and with one that names a server: neither the package's default
// configuration nor the caller's is written to (sessions share both), and each call gets a
// connection object of its own.
func C19_tls_default() {
	vRandConcrete(true)
	var shared *tls.Config
	switch vChoose("config", 3) {
	case 1:
		shared = &tls.Config{MinVersion: tls.VersionTLS12}
	case 2:
		shared = &tls.Config{ServerName: "fixed.test"}
	}
	d := Dialer{TLSConfig: shared}
	before := ""
	if shared != nil {
		before = shared.ServerName
	}
	hosts := []string{"alpha.test", "beta.test"}
	if vChoose("order", 2) == 1 {
		hosts[0], hosts[1] = hosts[1], hosts[0]
	}
	c1 := d.tlsClient(&vCutDialConn{}, hosts[0])
	c2 := d.tlsClient(&vCutDialConn{}, hosts[1])
	vAssert(vAnd(c1 != nil, vAnd(c2 != nil, c1 != c2)), "tls.each_session_gets_its_own_conn")
	vAssert(tlsDefaultConfig().ServerName == "", "tls.default_config_not_written")
	if shared != nil {
		vAssert(shared.ServerName == before, "tls.callers_config_not_written")
	}
}
