//go:build verif

package ws

// C17_mask_helpers: the copying mask/unmask helpers leave the caller's bytes bit-for-bit intact
// for ANY frame header (already masked or not).
func C17_mask_helpers() {
	n := 1 + vChoose("n", 9)
	p := vBytes("p", n)
	keep := append([]byte{}, p...)
	var h Header
	h.Fin = vBool("fin")
	h.OpCode = OpCode(vU8("op") & 15)
	h.Length = int64(n)
	h.Masked = vBool("masked")
	h.Mask = [4]byte{vU8("o0"), vU8("o1"), vU8("o2"), vU8("o3")}
	f := Frame{Header: h, Payload: p}
	var g Frame
	switch vChoose("fn", 3) {
	case 0:
		g = MaskFrame(f)
	case 1:
		g = MaskFrameWith(f, [4]byte{vU8("k0"), vU8("k1"), vU8("k2"), vU8("k3")})
	case 2:
		g = UnmaskFrame(f)
	}
	vAssert(vEqBytes(p, keep), "caller.mask_helper_leaves_bytes_intact")
	vAssert(!vSameMem(g.Payload, p), "caller.mask_helper_returns_a_copy")
	// and the other way round: scribbling over the result does not reach the caller
	for i := range g.Payload {
		g.Payload[i] = 0xEE
	}
	vAssert(vEqBytes(p, keep), "caller.result_is_independent")
}
