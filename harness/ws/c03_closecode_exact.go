//go:build verif

package ws

// C03_closecode_exact: CheckCloseFrameData over all 65536 codes and short reasons.
func C03_closecode_exact() {
	code := StatusCode(vU16("code"))
	maxM := 3
	if vTier() > 0 {
		maxM = 4
	}
	m := vChoose("m", maxM+1)
	reason := vBytes("r", m)
	err := CheckCloseFrameData(code, string(reason))
	c := uint16(code)
	codeOK := vOr(vAnd(c >= 1000, c <= 1003), vOr(vAnd(c >= 1007, c <= 1011), vAnd(c >= 3000, c <= 4999)))
	open := vOr(vAnd(c >= 1012, c <= 1014), c >= 5000) // left open by the property
	utfOK := vUTF8Valid(reason)
	vAssert(vImplies(vAnd(codeOK, utfOK), err == nil), "close.accepts_valid")
	vAssert(vImplies(vAnd(!codeOK, !open), err != nil), "close.rejects_bad_code")
	vAssert(vImplies(!utfOK, err != nil), "close.rejects_bad_utf8")
	// status-code predicates agree with their ranges
	vAssert(code.IsNotUsed() == (c <= 999), "code.notused")
	vAssert(code.IsProtocolSpec() == vAnd(c >= 1000, c <= 2999), "code.protocol")
	vAssert(code.IsApplicationSpec() == vAnd(c >= 3000, c <= 3999), "code.app")
	vAssert(code.IsPrivateSpec() == vAnd(c >= 4000, c <= 4999), "code.private")
	vAssert(code.Empty() == (c == 0), "code.empty")
}
