//go:build verif

package ws

import (
	"net/url"

	"github.com/gobwas/httphead"
)

// C10_response_pairs: as C10_response_template, but TWO different elements of the response are
// perturbed on every path (every unordered pair of the eight elements): success iff both leave
// the response a valid 101.
func C10_response_pairs() {
	vRandConcrete(true)
	var d Dialer
	d.Protocols = []string{"chat", "superchat"}
	d.Extensions = []httphead.Option{httphead.NewOption("permessage-deflate", map[string]string{"client_max_window_bits": "10"}), httphead.NewOption("x-ext", nil)}
	wantExtParams := ""
	version := []byte("HTTP/1.1")
	status := []byte("101")
	upgrade := "Upgrade: websocket"
	connection := "Connection: Upgrade"
	var acceptMut func(a []byte) []byte
	var extra []string
	valid := true
	determinate := true
	wantProto := ""
	wantExt := 0
	dropAccept := false
	env := 2 * vChoose("env", 1+vTier()) // whole reads (thorough: also 1-byte transport chunks)
	first := 0
	for round := 0; round < 2; round++ {
		perturb := 1 + vChoose("perturb", 8)
		if round == 0 {
			first = perturb
		} else if perturb <= first || (first == 2 && perturb == 3) {
			vAssume(false) // unordered pairs of different elements (2 and 3 both rewrite the status)
		}
		roundValid := true
		switch perturb {
		case 1: // version digits
			d1, d2 := vU8("vmaj"), vU8("vmin")
			vAssume(vAnd(d1 != ' ', vAnd(d1 != '\r', vAnd(d1 != '\n', d1 != '.'))))
			vAssume(vAnd(d2 != ' ', vAnd(d2 != '\r', vAnd(d2 != '\n', d2 != '.'))))
			version = []byte{'H', 'T', 'T', 'P', '/', d1, '.', d2}
			roundValid = vConcrete(vIte(vAnd(d1 == '1', vIn(d2, '1', '9')), 1, 0)) == 1
		case 2: // status token: three arbitrary bytes
			status = vBytes("status", 3)
			for _, c := range status {
				vAssume(vAnd(c != ' ', vAnd(c != '\r', c != '\n')))
			}
			roundValid = vConcrete(vIte(vEqBytes(status, []byte("101")), 1, 0)) == 1
		case 3: // status token of other lengths
			status = [][]byte{[]byte("1010"), []byte("0101"), []byte("10"), []byte("200")}[vChoose("statuslen", 4)]
			roundValid = false
			if string(status) == "0101" {
				determinate = false // leading zero: numerically 101, left open
			}
		case 4: // Upgrade
			switch vChoose("upgrade", 5) {
			case 0:
				upgrade = ""
				roundValid = false
			case 1:
				upgrade = "upgrade: WebSocket"
			case 3: // optional white space is SP or HTAB (RFC 7230), in any mix
				upgrade = "Upgrade:\twebsocket \t"
			case 4: // one arbitrary byte of white-space-like kind next to the value: only SP and HTAB are ignored
				c := vU8("wsbyte")
				vAssume(vOr(c == ' ', vOr(c == '\t', vOr(c == 0x0b, vOr(c == 0x0c, c == 0xa0)))))
				upgrade = "Upgrade: websocket" + string([]byte{c})
				roundValid = vConcrete(vIte(vOr(c == ' ', c == '\t'), 1, 0)) == 1
			case 2:
				upgrade = "Upgrade: websockets"
				roundValid = false
			}
		case 5: // Connection
			switch vChoose("connection", 4) {
			case 0:
				connection = ""
				roundValid = false
			case 1:
				connection = "CONNECTION:  upgrade "
			case 3:
				connection = "Connection: \tUpgrade\t "
			case 2:
				connection = "Connection: close"
				roundValid = false
			}
		case 6: // accept value
			switch vChoose("accept", 4) {
			case 0:
				dropAccept = true
				roundValid = false
			case 1: // one arbitrary byte at an arbitrary place
				i := vChoose("pos", 28)
				c := vU8("c")
				vAssume(vAnd(c != '\r', vAnd(c != '\n', vAnd(c != ' ', c != '\t'))))
				acceptMut = func(a []byte) []byte {
					same := vConcrete(vIte(a[i] == c, 1, 0)) == 1
					valid = valid && same // decided when the response is built
					a[i] = c
					return a
				}
			case 2:
				acceptMut = func(a []byte) []byte { return a[:27] }
				roundValid = false
			case 3:
				acceptMut = func(a []byte) []byte { return append(a, '=') }
				roundValid = false
			}
		case 7: // subprotocol
			switch vChoose("proto", 6) {
			case 3: // a list is not "one it requested", whatever it contains
				extra = append(extra, "Sec-WebSocket-Protocol: "+[]string{"other, chat", "chat, other", "chat,superchat", "chat, chat"}[vChoose("protolist", 4)])
				roundValid = false
			case 4: // one arbitrary byte of a requested name replaced
				v := []byte("superchat")
				i := vChoose("protopos", len(v))
				c := vU8("protobyte")
				vAssume(vAnd(c != '\r', vAnd(c != '\n', vAnd(c != ' ', c != '\t'))))
				roundValid = vConcrete(vIte(c == v[i], 1, 0)) == 1
				v[i] = c
				extra = append(extra, "Sec-WebSocket-Protocol: "+string(v))
				wantProto = "superchat"
			case 5: // sent twice
				extra = append(extra, "Sec-WebSocket-Protocol: chat", "Sec-WebSocket-Protocol: superchat")
				determinate = false // two subprotocol headers: left open by the property
			case 0:
				extra = append(extra, "Sec-WebSocket-Protocol: superchat")
				wantProto = "superchat"
			case 1:
				extra = append(extra, "Sec-WebSocket-Protocol: other")
				roundValid = false
			case 2:
				extra = append(extra, "sec-websocket-protocol: chat")
				wantProto = "chat"
			}
		case 8: // extensions
			switch vChoose("ext", 7) {
			case 0:
				extra = append(extra, "Sec-WebSocket-Extensions: permessage-deflate; server_no_context_takeover")
				wantExt = 1
				wantExtParams = "server_no_context_takeover="
			case 3: // the server accepts the offered extension WITHOUT the parameters the client offered
				extra = append(extra, "Sec-WebSocket-Extensions: permessage-deflate")
				wantExt = 1
				wantExtParams = "-"
			case 1:
				extra = append(extra, "Sec-WebSocket-Extensions: x-ext, x-unknown")
				roundValid = false
			case 4: // the extension that was not offered comes FIRST in the list
				extra = append(extra, "Sec-WebSocket-Extensions: x-unknown, x-ext")
				roundValid = false
			case 5: // two offered extensions in one list: both are returned, in the server's order
				extra = append(extra, "Sec-WebSocket-Extensions: x-ext, permessage-deflate; server_no_context_takeover")
				wantExt = 2
			case 6: // the same offered name twice, with different parameters: two extensions
				extra = append(extra, "Sec-WebSocket-Extensions: x-ext; a=1, x-ext; b=2")
				wantExt = 2
			case 2:
				extra = append(extra, "Sec-WebSocket-Extensions: x-ext", "X-Other: 1")
				wantExt = 1
			}
		}
		valid = valid && roundValid
	}
	srv := &vServer{}
	srv.resp = func(key []byte) []byte {
		var b []byte
		b = append(b, version...)
		b = append(b, ' ')
		b = append(b, status...)
		b = append(b, " Switching Protocols\r\n"...)
		acc := vAccept(key)
		if acceptMut != nil {
			acc = acceptMut(acc)
		}
		lines := []string{upgrade, connection}
		if !dropAccept {
			lines = append(lines, "Sec-WebSocket-Accept: "+string(acc))
		}
		lines = append(lines, extra...)
		if env == 1 { // reversed header order
			for i, j := 0, len(lines)-1; i < j; i, j = i+1, j-1 {
				lines[i], lines[j] = lines[j], lines[i]
			}
		}
		for _, l := range lines {
			if l == "" {
				continue
			}
			b = append(b, l...)
			b = append(b, "\r\n"...)
		}
		return append(b, "\r\n"...)
	}
	if env == 2 {
		srv.chunks = []int{1, 1, 1, 1, 1, 1, 1, 1, 1, 1, 1, 1, 1, 1, 1, 1, 1, 1, 1, 1}
	}
	if env == 3 {
		d.ReadBufferSize = 256
	}
	u := &url.URL{Scheme: "ws", Host: "example.com", Path: "/"}
	br, hs, err := d.Upgrade(srv, u)
	if !determinate {
		return
	}
	vAssert((err == nil) == valid, "rpairs.success_iff_valid_101")
	if err != nil {
		vAssert(br == nil, "rpairs.no_reader_on_error")
		return
	}
	vAssert(hs.Protocol == wantProto, "rpairs.protocol_is_servers")
	vAssert(len(hs.Extensions) == wantExt, "rpairs.extensions_are_servers")
	if wantExtParams != "" && len(hs.Extensions) == 1 {
		got := ""
		hs.Extensions[0].Parameters.ForEach(func(k, v []byte) bool { got += string(k) + "=" + string(v); return true })
		if wantExtParams == "-" {
			vAssert(got == "", "rpairs.extension_parameters_are_servers_not_the_offer")
		} else {
			vAssert(got == wantExtParams, "rpairs.extension_parameters_are_servers")
		}
	}
	vAssert(br == nil, "rpairs.nothing_buffered_no_reader")
}
