//go:build verif

package ws

// C03_closebody_roundtrip: bodies built by the library are <= 125 bytes and parse back.
func C03_closebody_roundtrip() {
	lens := []int{0, 1, 2, 3, 122, 123, 124, 125, 130}
	if vTier() > 0 {
		lens = nil
		for i := 0; i <= 130; i++ {
			lens = append(lens, i)
		}
	}
	n := lens[vChoose("n", len(lens))]
	code := StatusCode(vU16("code"))
	r := vBytes("r", n)
	body := NewCloseFrameBody(code, string(r))
	vAssert(len(body) <= 125, "body.max125")
	want := n
	if want > 123 {
		want = 123
	}
	vAssert(len(body) == 2+want, "body.len")
	c2, reason := ParseCloseFrameData(body)
	vAssert(c2 == code, "body.code")
	vAssert(vEqBytes([]byte(reason), r[:want]), "body.reason")
	c3, reason3 := ParseCloseFrameDataUnsafe(body)
	vAssert(vAnd(c3 == code, vEqStr(reason3, reason)), "body.unsafe_same")
	// the returned body is the caller's: what the caller does to it (masking it in place, say)
	// does not change what the next call builds
	for i := range body {
		body[i] ^= 0xA5
	}
	again := NewCloseFrameBody(code, string(r))
	c6, reason6 := ParseCloseFrameData(again)
	vAssert(vAnd(c6 == code, vEqBytes([]byte(reason6), r[:want])), "body.rebuilt_after_caller_modified_the_first")
	for i := range body {
		body[i] ^= 0xA5
	}
	// short payloads parse as "no code"
	short := vBytes("s", vChoose("sl", 2))
	c4, r4 := ParseCloseFrameData(short)
	vAssert(vAnd(c4 == 0, len(r4) == 0), "body.short_nocode")
	c5, r5 := ParseCloseFrameDataUnsafe(short)
	vAssert(vAnd(c5 == 0, len(r5) == 0), "body.short_nocode_unsafe")
	vTraceBytes("body", body)
}
