//go:build verif

package ws

// C02_frame_helpers: Mask/Unmask helpers; copying variants leave the caller's bytes intact.
func C02_frame_helpers() {
	n := vChoose("n", 10)
	p := vBytes("p", n)
	orig := append([]byte{}, p...)
	key := [4]byte{vU8("k0"), vU8("k1"), vU8("k2"), vU8("k3")}
	var h Header
	h.Fin = vBool("fin")
	h.OpCode = OpCode(vU8("op"))
	// the header's Length field is the caller's business: the helpers work on the payload bytes
	// they are given (a struct-literal frame often leaves Length at 0) and pass the field through
	h.Length = int64([]int{n, 0, n - 1, n + 4}[vChoose("hlen", 4)])
	vAssume(h.Length >= 0)
	h.Masked = vBool("premasked")
	h.Mask = [4]byte{vU8("o0"), vU8("o1"), vU8("o2"), vU8("o3")}
	f := Frame{Header: h, Payload: p}
	xor := func(in []byte, k [4]byte) []byte {
		out := make([]byte, len(in))
		for i := range in {
			out[i] = in[i] ^ k[i%4]
		}
		return out
	}
	switch vChoose("fn", 6) {
	case 0: // MaskFrameWith copies
		g := MaskFrameWith(f, key)
		vAssert(vEqBytes(p, orig), "helpers.maskwith.caller_intact")
		vAssert(vEqBytes(g.Payload, xor(orig, key)), "helpers.maskwith.xor")
		vAssert(vAnd(g.Header.Masked, g.Header.Mask == key), "helpers.maskwith.header")
		vAssert(!vSameMem(g.Payload, p), "helpers.maskwith.noalias")
		vAssert(vAnd(g.Header.Fin == h.Fin, vAnd(g.Header.OpCode == h.OpCode, g.Header.Length == h.Length)), "helpers.maskwith.rest")
	case 1: // MaskFrame copies, random key reported in header
		g := MaskFrame(f)
		vAssert(vEqBytes(p, orig), "helpers.mask.caller_intact")
		vAssert(g.Header.Masked, "helpers.mask.header")
		vAssert(vEqBytes(g.Payload, xor(orig, g.Header.Mask)), "helpers.mask.xor")
	case 2: // MaskFrameInPlaceWith aliases
		g := MaskFrameInPlaceWith(f, key)
		vAssert(vEqBytes(p, xor(orig, key)), "helpers.inplacewith.xor")
		vAssert(vOr(n == 0, vSameMem(g.Payload, p)), "helpers.inplacewith.alias")
		vAssert(vAnd(g.Header.Masked, g.Header.Mask == key), "helpers.inplacewith.header")
	case 3: // MaskFrameInPlace
		g := MaskFrameInPlace(f)
		vAssert(g.Header.Masked, "helpers.inplace.header")
		vAssert(vEqBytes(p, xor(orig, g.Header.Mask)), "helpers.inplace.xor")
	case 4: // UnmaskFrame copies
		g := UnmaskFrame(f)
		vAssert(vEqBytes(p, orig), "helpers.unmask.caller_intact")
		vAssert(vEqBytes(g.Payload, xor(orig, h.Mask)), "helpers.unmask.xor")
		vAssert(vAnd(!g.Header.Masked, g.Header.Mask == [4]byte{}), "helpers.unmask.header")
		vAssert(!vSameMem(g.Payload, p), "helpers.unmask.noalias")
		vAssert(vAnd(g.Header.Fin == h.Fin, vAnd(g.Header.OpCode == h.OpCode, g.Header.Length == h.Length)), "helpers.unmask.rest")
	case 5: // UnmaskFrameInPlace
		g := UnmaskFrameInPlace(f)
		vAssert(vEqBytes(p, xor(orig, h.Mask)), "helpers.unmaskinplace.xor")
		vAssert(vAnd(!g.Header.Masked, g.Header.Mask == [4]byte{}), "helpers.unmaskinplace.header")
	}
}
