//go:build verif

package ws

// C09_parse_version: httpParseVersion accepts exactly HTTP/<digits>.<digits>.
func C09_parse_version() {
	n := 6 + vChoose("n", 4) // 6..9 bytes
	b := vBytes("v", n)
	major, minor, ok := httpParseVersion(b)
	prefix := vAnd(b[0] == 'H', vAnd(b[1] == 'T', vAnd(b[2] == 'T', vAnd(b[3] == 'P', b[4] == '/'))))
	// reference: exactly one dot splitting two non-empty digit strings
	good := false
	var wmaj, wmin uint64
	for dot := 6; dot < n-1; dot++ {
		g := vAnd(prefix, b[dot] == '.')
		var mj, mn uint64
		for i := 5; i < dot; i++ {
			g = vAnd(g, vIn(b[i], '0', '9'))
			mj = mj*10 + uint64(b[i]-'0')
		}
		for i := dot + 1; i < n; i++ {
			g = vAnd(g, vIn(b[i], '0', '9'))
			mn = mn*10 + uint64(b[i]-'0')
		}
		wmaj = vIte(g, mj, wmaj)
		wmin = vIte(g, mn, wmin)
		good = vOr(good, g)
	}
	if n >= 8 {
		vAssert(ok == good, "version.ok_iff_wellformed")
	} else {
		vAssert(vImplies(ok, good), "version.short_ok_only_if_wellformed")
	}
	if ok {
		vAssert(vAnd(uint64(major) == wmaj, uint64(minor) == wmin), "version.value")
	}
}
