//go:build verif

package ws

import (
	"github.com/gobwas/httphead"
)

// C17_upgrader_results: Handshake data selected by the library stays intact after the pooled
// I/O buffers have been recycled with other content.
func C17_upgrader_results() {
	tok := vBytes("tok", 2)
	for _, c := range tok {
		vAssume(vIn(c, 'a', 'z'))
	}
	par := vBytes("par", 2)
	for _, c := range par {
		vAssume(vIn(c, '0', '9'))
	}
	req := []byte("GET /x HTTP/1.1\r\nHost: h\r\nUpgrade: websocket\r\nConnection: Upgrade\r\nSec-WebSocket-Version: 13\r\nSec-WebSocket-Key: dGhlIHNhbXBsZSBub25jZQ==\r\nSec-WebSocket-Protocol: ")
	// the accepted subprotocol is the second of two, the first of two, or the only one offered
	// (a selector may take a shortcut when the token is the whole header value)
	switch vChoose("offer", 3) {
	case 0:
		req = append(req, "x, "...)
		req = append(req, tok...)
	case 1:
		req = append(req, tok...)
		req = append(req, " ,y"...)
	case 2:
		req = append(req, tok...)
	}
	req = append(req, "\r\nSec-WebSocket-Extensions: ext-a; p="...)
	req = append(req, par...)
	// a read buffer whose configured size (300) is not what the pool hands out (512), and an
	// extensions line longer than the former but shorter than the latter
	long := vChoose("longline", 2) == 1
	if long {
		req = append(req, ", ext-b; pad="...)
		for i := 0; i < 300; i++ {
			req = append(req, 'x')
		}
		req = append(req, "\r\n\r\n"...)
	} else {
		req = append(req, ", ext-b\r\n\r\n"...)
	}
	u := Upgrader{Protocol: func(p []byte) bool { return len(p) == 2 }}
	switch vChoose("path", 2) {
	case 0:
		u.Extension = func(o httphead.Option) bool { return true }
	case 1:
		var e = httphead.NewOption("ext-a", map[string]string{"answer": "1"})
		u.Negotiate = func(o httphead.Option) (httphead.Option, error) {
			if string(o.Name) == "ext-a" {
				return e, nil
			}
			return httphead.Option{}, nil
		}
	}
	if long {
		u.ReadBufferSize = 300
	}
	conn := &vConn{in: req}
	path1 := u.Negotiate != nil
	hs, err := u.Upgrade(conn)
	// recycle the pooled buffers with other content BEFORE looking at the results
	vPoisonPools()
	vAssert(err == nil, "alias.upgrade_ok")
	if err != nil {
		return
	}
	vAssert(vEqBytes([]byte(hs.Protocol), tok), "alias.protocol_survives_pool_reuse")
	if path1 {
		vAssert(len(hs.Extensions) == 1, "alias.negotiated_extension_count")
		return
	}
	vAssert(len(hs.Extensions) == 2, "alias.extension_count")
	if len(hs.Extensions) != 2 {
		return
	}
	a, b := hs.Extensions[0], hs.Extensions[1]
	vAssert(vAnd(vEqBytes(a.Name, []byte("ext-a")), vEqBytes(b.Name, []byte("ext-b"))), "alias.extension_names_survive_pool_reuse")
	v, ok := a.Parameters.Get("p")
	vAssert(vAnd(ok, vEqBytes(v, par)), "alias.extension_parameters_survive_pool_reuse")
}
