//go:build verif

package ws

import (
	"github.com/gobwas/httphead"
)

// C15_header_values: the token/option selection helpers on arbitrary header values.
func C15_header_values() {
	n := vChoose("n", 4+vTier())
	v := vArb("v", n)
	switch vChoose("fn", 5) {
	case 0:
		btsSelectProtocol(v, func(p []byte) bool { return len(p) == 1 })
	case 1:
		btsSelectExtensions(v, nil, func(o httphead.Option) bool { return len(o.Name) == 1 })
	case 2:
		negotiateExtensions(v, nil, func(o httphead.Option) (httphead.Option, error) { return o, nil })
	case 3:
		matchSelectedExtensions(v, []httphead.Option{httphead.NewOption("a", nil)}, nil)
	case 4:
		btsHasToken(v, []byte("upgrade"))
		strSelectProtocol(string(v), func(s string) bool { return s == "a" })
	}
	vAssert(true, "values.returned")
}
