//go:build verif

package ws

import (
	"net/url"

	"github.com/gobwas/httphead"
)

// C17_upgrader_results: Handshake data selected by the library stays intact after the pooled
// I/O buffers have been recycled with other content.
func C17_upgrader_results() {
	tok := vBytes("tok", 2)
	for _, c := range tok {
		vAssume(vIn(c, 'a', 'z'))
	}
	par := vBytes("par", 2)
	for _, c := range par {
		vAssume(vIn(c, '0', '9'))
	}
	req := []byte("GET /x HTTP/1.1\r\nHost: h\r\nUpgrade: websocket\r\nConnection: Upgrade\r\nSec-WebSocket-Version: 13\r\nSec-WebSocket-Key: dGhlIHNhbXBsZSBub25jZQ==\r\nSec-WebSocket-Protocol: x, ")
	req = append(req, tok...)
	req = append(req, "\r\nSec-WebSocket-Extensions: ext-a; p="...)
	req = append(req, par...)
	req = append(req, ", ext-b\r\n\r\n"...)
	u := Upgrader{Protocol: func(p []byte) bool { return len(p) == 2 }}
	switch vChoose("path", 2) {
	case 0:
		u.Extension = func(o httphead.Option) bool { return true }
	case 1:
		var e = httphead.NewOption("ext-a", map[string]string{"answer": "1"})
		u.Negotiate = func(o httphead.Option) (httphead.Option, error) {
			if string(o.Name) == "ext-a" {
				return e, nil
			}
			return httphead.Option{}, nil
		}
	}
	conn := &vConn{in: req}
	path1 := u.Negotiate != nil
	hs, err := u.Upgrade(conn)
	// recycle the pooled buffers with other content BEFORE looking at the results
	vPoisonPools()
	vAssert(err == nil, "alias.upgrade_ok")
	if err != nil {
		return
	}
	vAssert(vEqBytes([]byte(hs.Protocol), tok), "alias.protocol_survives_pool_reuse")
	if path1 {
		vAssert(len(hs.Extensions) == 1, "alias.negotiated_extension_count")
		return
	}
	vAssert(len(hs.Extensions) == 2, "alias.extension_count")
	if len(hs.Extensions) != 2 {
		return
	}
	a, b := hs.Extensions[0], hs.Extensions[1]
	vAssert(vAnd(vEqBytes(a.Name, []byte("ext-a")), vEqBytes(b.Name, []byte("ext-b"))), "alias.extension_names_survive_pool_reuse")
	v, ok := a.Parameters.Get("p")
	vAssert(vAnd(ok, vEqBytes(v, par)), "alias.extension_parameters_survive_pool_reuse")
}

// C17_dialer_results: the same for what the Dialer returns.
func C17_dialer_results() {
	vRandConcrete(true)
	par := vBytes("par", 2)
	for _, c := range par {
		vAssume(vIn(c, '0', '9'))
	}
	d := Dialer{Protocols: []string{"chat", "other"}, Extensions: []httphead.Option{httphead.NewOption("ext-a", nil)}}
	srv := &vServer{}
	srv.resp = func(key []byte) []byte {
		b := []byte("HTTP/1.1 101 Switching Protocols\r\nUpgrade: websocket\r\nConnection: Upgrade\r\nSec-WebSocket-Accept: " + string(vAccept(key)) + "\r\nSec-WebSocket-Protocol: other\r\nSec-WebSocket-Extensions: ext-a; p=")
		b = append(b, par...)
		return append(b, "\r\n\r\n"...)
	}
	_, hs, err := d.Upgrade(srv, &url.URL{Scheme: "ws", Host: "h", Path: "/"})
	vPoisonPools()
	vAssert(err == nil, "alias.dial_ok")
	if err != nil {
		return
	}
	vAssert(hs.Protocol == "other", "alias.dial_protocol_survives_pool_reuse")
	vAssert(len(hs.Extensions) == 1, "alias.dial_extension_count")
	if len(hs.Extensions) != 1 {
		return
	}
	v, ok := hs.Extensions[0].Parameters.Get("p")
	vAssert(vAnd(vEqBytes(hs.Extensions[0].Name, []byte("ext-a")), vAnd(ok, vEqBytes(v, par))), "alias.dial_extensions_survive_pool_reuse")
}

// C17_mask_helpers: the copying mask/unmask helpers leave the caller's bytes bit-for-bit intact
// for ANY frame header (already masked or not).
func C17_mask_helpers() {
	n := 1 + vChoose("n", 9)
	p := vBytes("p", n)
	keep := append([]byte{}, p...)
	var h Header
	h.Fin = vBool("fin")
	h.OpCode = OpCode(vU8("op") & 15)
	h.Length = int64(n)
	h.Masked = vBool("masked")
	h.Mask = [4]byte{vU8("o0"), vU8("o1"), vU8("o2"), vU8("o3")}
	f := Frame{Header: h, Payload: p}
	var g Frame
	switch vChoose("fn", 3) {
	case 0:
		g = MaskFrame(f)
	case 1:
		g = MaskFrameWith(f, [4]byte{vU8("k0"), vU8("k1"), vU8("k2"), vU8("k3")})
	case 2:
		g = UnmaskFrame(f)
	}
	vAssert(vEqBytes(p, keep), "caller.mask_helper_leaves_bytes_intact")
	vAssert(!vSameMem(g.Payload, p), "caller.mask_helper_returns_a_copy")
	// and the other way round: scribbling over the result does not reach the caller
	for i := range g.Payload {
		g.Payload[i] = 0xEE
	}
	vAssert(vEqBytes(p, keep), "caller.result_is_independent")
}
