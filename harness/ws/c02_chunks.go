//go:build verif

package ws

// C02_chunks: processing a payload as two consecutive chunks with a running offset
// equals one call; applying Cipher twice restores the input.
func C02_chunks() {
	maxN := 20
	if vTier() > 0 {
		maxN = 40
	}
	n := vChoose("n", maxN+1)
	k := vChoose("k", n+1)
	p := vBytes("p", n)
	a := append([]byte{}, p...)
	b := append([]byte{}, p...)
	key := [4]byte{vU8("k0"), vU8("k1"), vU8("k2"), vU8("k3")}
	off := vInt("offset")
	vAssume(off >= 0)
	vAssume(off <= 1<<62) // off+k must not overflow: a running stream offset
	Cipher(a, key, off)
	Cipher(b[:k], key, off)
	Cipher(b[k:], key, off+k)
	vAssert(vEqBytes(a, b), "chunks.same")
	Cipher(a, key, off)
	vAssert(vEqBytes(a, p), "chunks.involution")
	vTraceBytes("b", b)
}
