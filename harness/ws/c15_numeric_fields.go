//go:build verif

package ws

// C15_numeric_fields: the numeric fields of the handshake start lines
// (HTTP version components, response status) at any length up to 24 bytes —
// beyond what fits into an int — are decoded to a value or an error.
func C15_numeric_fields() {
	n := 1 + vChoose("n", 24)
	b := vBytes("b", n)
	switch vChoose("fn", 3) {
	case 0:
		asciiToInt(b)
	case 1:
		// HTTP/<b>.<digit> and HTTP/<digit>.<b>
		d := vU8("d")
		var v []byte
		if vBool("minor") {
			v = append(append([]byte("HTTP/"), d, '.'), b...)
		} else {
			v = append(append([]byte("HTTP/"), b...), '.', d)
		}
		httpParseVersion(v)
	case 2:
		line := append(append([]byte("HTTP/1.1 "), b...), " x"...)
		httpParseResponseLine(line)
	}
	vAssert(true, "numeric.returned")
}
