//go:build verif

package ws

import (
	"github.com/gobwas/httphead"
)

// C09_custom_selectors: the "custom" twins of the subprotocol / extension selectors
// (ProtocolCustom, ExtensionCustom), which get the raw header value and are used INSTEAD of the
// simple callbacks when both are set.  They see exactly the value the client sent; what they
// return is what the handshake reports and what the 101 response carries; a value they call
// malformed fails the handshake with 400.
func C09_custom_selectors() {
	tok := vU8("tok")
	vAssume(vIn(tok, 'a', 'z'))
	protoValue := string([]byte{'p', tok}) + " , qq"
	extValue := "ext-a; k=v, ext-b"
	req := []byte("GET /x HTTP/1.1\r\nHost: h\r\nUpgrade: websocket\r\nConnection: Upgrade\r\nSec-WebSocket-Version: 13\r\nSec-WebSocket-Key: dGhlIHNhbXBsZSBub25jZQ==\r\n")
	// the subprotocol list on one header line or on two (RFC 6455 allows both): on two, the
	// callback runs per line until it has chosen -- the first choice in the client's order stands
	two := vChoose("twolines", 2) == 1
	if two {
		req = append(req, "Sec-WebSocket-Protocol: "+string([]byte{'p', tok})+"\r\nSec-WebSocket-Protocol: qq\r\nSec-WebSocket-Extensions: "+extValue+"\r\n\r\n"...)
	} else {
		req = append(req, "Sec-WebSocket-Protocol: "+protoValue+"\r\nSec-WebSocket-Extensions: "+extValue+"\r\n\r\n"...)
	}
	pick := []string{"", "qq", string([]byte{'p', tok})}[vChoose("pick", 3)]
	pick2 := []string{"", "qq"}[vChoose("pick2", 2)] // what the callback answers for the second line
	protoOK, extOK := vBool("protook"), vBool("extok")
	takeExt := vChoose("takeext", 2) == 1
	var sawProto, sawExt []byte
	calls := 0
	simpleCalled := false
	u := Upgrader{
		ProtocolCustom: func(v []byte) (string, bool) {
			calls++
			if calls > 1 {
				sawProto = append(sawProto, '|')
			}
			sawProto = append(sawProto, v...)
			if calls > 1 {
				return pick2, protoOK
			}
			return pick, protoOK
		},
		Protocol: func(p []byte) bool { simpleCalled = true; return true },
		ExtensionCustom: func(v []byte, acc []httphead.Option) ([]httphead.Option, bool) {
			sawExt = append(sawExt, v...)
			if takeExt {
				acc = append(acc, httphead.NewOption("ext-b", map[string]string{"z": "1"}))
			}
			return acc, extOK
		},
		Extension: func(o httphead.Option) bool { simpleCalled = true; return true },
	}
	conn := &vConn{in: req, one: vChoose("chunk", 2) == 1}
	hs, err := u.Upgrade(conn)
	r := vParseResp(conn.out)
	vAssert(r.ok, "custom.response_written")
	if !r.ok {
		return
	}
	vAssert(!simpleCalled, "custom.simple_callbacks_not_used_next_to_custom_ones")
	if two {
		// (a malformed verdict on the first line ends the header processing of that kind)
		first := string([]byte{'p', tok})
		if pick != "" || vConcrete(vIte(protoOK, 1, 0)) == 0 {
			vAssert(string(sawProto) == first, "custom.no_further_line_consulted_after_a_choice")
		} else {
			vAssert(string(sawProto) == first+"|qq", "custom.protocol_callback_sees_each_line")
			pick = pick2
		}
	} else {
		vAssert(string(sawProto) == protoValue, "custom.protocol_callback_sees_the_value_sent")
	}
	good := vConcrete(vIte(vAnd(protoOK, extOK), 1, 0)) == 1
	vAssert((err == nil) == good, "custom.success_iff_callbacks_call_the_values_wellformed")
	if !good {
		vAssert(r.status == 400, "custom.malformed_value_is_400")
		return
	}
	vAssert(string(sawExt) == extValue, "custom.extension_callback_sees_the_value_sent")
	vAssert(r.status == 101, "custom.101")
	vAssert(hs.Protocol == pick, "custom.protocol_returned_is_the_callbacks")
	sent, n := r.get("Sec-WebSocket-Protocol")
	if pick == "" {
		vAssert(n == 0, "custom.no_protocol_header_when_none_chosen")
	} else {
		vAssert(vAnd(n == 1, sent == pick), "custom.protocol_sent_is_the_callbacks")
	}
	x, nx := r.get("Sec-WebSocket-Extensions")
	if takeExt {
		vAssert(vAnd(len(hs.Extensions) == 1, string(hs.Extensions[0].Name) == "ext-b"), "custom.extensions_returned_are_the_callbacks")
		vAssert(vAnd(nx == 1, vOr(x == "ext-b;z=1", x == "ext-b; z=1")), "custom.extensions_sent_are_the_callbacks")
	} else {
		vAssert(vAnd(len(hs.Extensions) == 0, nx == 0), "custom.no_extensions_when_none_taken")
	}
}
