//go:build verif

package ws

import (
	"net/url"

	"github.com/gobwas/httphead"
)

// C16_handshake_cut: a request or response that ends (EOF) or fails (error) at ANY byte offset
// before its final CRLF never yields a successful handshake.
func C16_handshake_cut() {
	vRandConcrete(true)
	kind := vChoose("kind", 4)
	useErr := kind%2 == 1
	withData := kind >= 2
	one := vChoose("chunk", 2) == 1
	if vChoose("side", 2) == 0 {
		full := []byte("GET /x HTTP/1.1\r\nHost: h\r\nUpgrade: websocket\r\nConnection: Upgrade\r\nSec-WebSocket-Version: 13\r\nSec-WebSocket-Key: dGhlIHNhbXBsZSBub25jZQ==\r\nSec-WebSocket-Protocol: a\r\n\r\n")
		cut := vChoose("cut", len(full)) // 0 .. len-1: at least the final LF is missing
		conn := &vConn{in: full[:cut], one: one, cutErr: useErr, endWithData: withData}
		u := Upgrader{Protocol: func(p []byte) bool { return true }}
		_, err := u.Upgrade(conn)
		vAssert(err != nil, "hcut.upgrader_fails")
		r := vParseResp(conn.out)
		vAssert(!(r.ok && r.status == 101), "hcut.no_101_for_cut_request")
		return
	}
	d := Dialer{Protocols: []string{"a"}, Extensions: []httphead.Option{httphead.NewOption("x", nil)}}
	srv := &vServer{}
	n := 0
	cut := vChoose("cut", 160)
	srv.resp = func(key []byte) []byte {
		b := []byte("HTTP/1.1 101 Switching Protocols\r\nUpgrade: websocket\r\nConnection: Upgrade\r\nSec-WebSocket-Accept: " + string(vAccept(key)) + "\r\nSec-WebSocket-Protocol: a\r\n\r\n")
		n = len(b)
		if cut >= n {
			cut = n - 1
		}
		return b[:cut]
	}
	if one {
		srv.chunks = make([]int, 200)
		for i := range srv.chunks {
			srv.chunks[i] = 1
		}
	}
	br, _, err := d.Upgrade(srv, &url.URL{Scheme: "ws", Host: "h", Path: "/"})
	vAssert(err != nil, "hcut.dialer_fails")
	vAssert(br == nil, "hcut.no_reader_for_cut_response")
	_ = useErr
}
