//go:build verif

package ws

import (
	"net/url"

	"github.com/gobwas/httphead"
)

// C17_dialer_results: the same for what the Dialer returns.
func C17_dialer_results() {
	vRandConcrete(true)
	par := vBytes("par", 2)
	for _, c := range par {
		vAssume(vIn(c, '0', '9'))
	}
	// the accepted extensions arrive on one header line or spread over two (RFC 6455 allows both)
	layout := vChoose("layout", 3)
	d := Dialer{Protocols: []string{"chat", "other"}, Extensions: []httphead.Option{httphead.NewOption("ext-a", nil), httphead.NewOption("ext-b", nil)}}
	srv := &vServer{}
	srv.resp = func(key []byte) []byte {
		b := []byte("HTTP/1.1 101 Switching Protocols\r\nUpgrade: websocket\r\nConnection: Upgrade\r\nSec-WebSocket-Accept: " + string(vAccept(key)) + "\r\nSec-WebSocket-Protocol: other\r\nSec-WebSocket-Extensions: ext-a; p=")
		b = append(b, par...)
		switch layout {
		case 1:
			b = append(b, "\r\nSec-WebSocket-Extensions: ext-b; q="...)
			b = append(b, par[1], par[0])
		case 2:
			b = append(b, ", ext-b; q="...)
			b = append(b, par[1], par[0])
		}
		return append(b, "\r\n\r\n"...)
	}
	_, hs, err := d.Upgrade(srv, &url.URL{Scheme: "ws", Host: "h", Path: "/"})
	vPoisonPools()
	vAssert(err == nil, "alias.dial_ok")
	if err != nil {
		return
	}
	vAssert(hs.Protocol == "other", "alias.dial_protocol_survives_pool_reuse")
	want := 1
	if layout != 0 {
		want = 2
	}
	vAssert(len(hs.Extensions) == want, "alias.dial_extension_count")
	if len(hs.Extensions) != want {
		return
	}
	v, ok := hs.Extensions[0].Parameters.Get("p")
	vAssert(vAnd(vEqBytes(hs.Extensions[0].Name, []byte("ext-a")), vAnd(ok, vEqBytes(v, par))), "alias.dial_extensions_survive_pool_reuse")
	if want == 2 {
		v, ok := hs.Extensions[1].Parameters.Get("q")
		vAssert(vAnd(vEqBytes(hs.Extensions[1].Name, []byte("ext-b")), vAnd(ok, vEqBytes(v, []byte{par[1], par[0]}))), "alias.dial_second_extension_survives_pool_reuse")
	}
	// a further handshake through the same Dialer, answered differently (other parameters, the
	// extensions the other way round or only the second one): the first result stays as it was
	next := vChoose("next", 3)
	size0 := hs.Extensions[0].Parameters.Size()
	srv2 := &vServer{}
	srv2.resp = func(key []byte) []byte {
		b := []byte("HTTP/1.1 101 Switching Protocols\r\nUpgrade: websocket\r\nConnection: Upgrade\r\nSec-WebSocket-Accept: " + string(vAccept(key)) + "\r\nSec-WebSocket-Protocol: chat\r\nSec-WebSocket-Extensions: ")
		switch next {
		case 0:
			b = append(b, "ext-a; p=zz; r=1, ext-b; q=yy"...)
		case 1:
			b = append(b, "ext-b; q=yy"...)
		default:
			b = append(b, "ext-a; other=1"...)
		}
		return append(b, "\r\n\r\n"...)
	}
	_, hs2, err := d.Upgrade(srv2, &url.URL{Scheme: "ws", Host: "h", Path: "/"})
	vPoisonPools()
	vAssert(vAnd(err == nil, hs2.Protocol == "chat"), "alias.second_dial_ok")
	vAssert(hs.Protocol == "other", "alias.dial_protocol_unchanged_by_next_handshake")
	vAssert(len(hs.Extensions) == want, "alias.dial_extension_count_unchanged_by_next_handshake")
	if len(hs.Extensions) != want {
		return
	}
	v, ok = hs.Extensions[0].Parameters.Get("p")
	vAssert(vAnd(vEqBytes(hs.Extensions[0].Name, []byte("ext-a")), vAnd(ok, vEqBytes(v, par))), "alias.dial_extensions_unchanged_by_next_handshake")
	vAssert(hs.Extensions[0].Parameters.Size() == size0, "alias.dial_extension_parameters_unchanged_by_next_handshake")
	if want == 2 {
		v, ok := hs.Extensions[1].Parameters.Get("q")
		vAssert(vAnd(vEqBytes(hs.Extensions[1].Name, []byte("ext-b")), vAnd(ok, vEqBytes(v, []byte{par[1], par[0]}))), "alias.dial_second_extension_unchanged_by_next_handshake")
	}
	// and the caller's configuration is still what the caller wrote
	vAssert(vAnd(len(d.Extensions) == 2, vAnd(vEqBytes(d.Extensions[0].Name, []byte("ext-a")), vEqBytes(d.Extensions[1].Name, []byte("ext-b")))), "alias.dialer_offer_names_unchanged")
	vAssert(vAnd(d.Extensions[0].Parameters.Size() == 0, d.Extensions[1].Parameters.Size() == 0), "alias.dialer_offer_parameters_unchanged")
}
