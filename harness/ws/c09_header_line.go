//go:build verif

package ws

// C09_header_line: "name: value" split, blank trimming, canonical name for any letter case.
func C09_header_line() {
	names := []string{"Host", "Upgrade", "Connection", "Sec-WebSocket-Version", "Sec-WebSocket-Key", "Sec-WebSocket-Protocol", "Sec-WebSocket-Extensions", "Sec-WebSocket-Accept"}
	canon := []string{headerHostCanonical, headerUpgradeCanonical, headerConnectionCanonical, headerSecVersionCanonical, headerSecKeyCanonical, headerSecProtocolCanonical, headerSecExtensionsCanonical, headerSecAcceptCanonical}
	i := vChoose("name", len(names))
	name := []byte(names[i])
	// letter case: all lower / all upper / three arbitrary (symbolic) case bits at a chosen place
	mode := vChoose("casemode", 3)
	start := 0
	if mode == 2 {
		start = vChoose("casestart", len(name)-2)
	}
	for j := range name {
		c := name[j]
		if !((c >= 'a' && c <= 'z') || (c >= 'A' && c <= 'Z')) {
			continue
		}
		switch mode {
		case 0:
			name[j] = c | 0x20
		case 1:
			name[j] = c &^ 0x20
		case 2:
			if j >= start && j < start+3 && vBool("case") {
				name[j] = c ^ 0x20
			}
		}
	}
	blanks := []string{"", " ", "\t", " \t "}
	val := vBytes("val", 2)
	vAssume(vAnd(val[0] != ' ', vAnd(val[0] != '\t', vAnd(val[1] != ' ', val[1] != '\t'))))
	line := append([]byte{}, blanks[vChoose("b0", 2)]...)
	line = append(line, name...)
	line = append(line, blanks[vChoose("b1", 2)]...)
	line = append(line, ':')
	line = append(line, blanks[vChoose("b2", 4)]...)
	line = append(line, val...)
	line = append(line, blanks[2*vChoose("b3", 2)]...)
	k, v, ok := httpParseHeaderLine(line)
	vAssert(ok, "line.parsed")
	vAssert(vEqBytes(k, []byte(canon[i])), "line.canonical_name")
	vAssert(vEqBytes(v, val), "line.value_trimmed")
	_, _, ok = httpParseHeaderLine([]byte("no colon here"))
	vAssert(!ok, "line.no_colon_rejected")
}
