//go:build verif

package ws

// ---- unit level: numeric tokens and header lines over fully symbolic bytes ----

// ---- whole handshake: request templates with symbolic holes ----
