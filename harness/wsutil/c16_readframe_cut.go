//go:build verif

package wsutil

import (
	"github.com/gobwas/ws"
)

// C16_readframe_cut: ws.ReadFrame of a cut frame returns an error.
func C16_readframe_cut() {
	n := 1 + vChoose("plen", 3)
	f := vFrame{fin: true, op: 2, masked: vChoose("masked", 2) == 1, key: [4]byte{1, 2, 3, 4}, payload: vBytes("p", n)}
	wire := vEncode(f)
	cut := vChoose("cut", len(wire))
	src := &vCutSrc{data: wire, cut: cut, useErr: vChoose("kind", 2) == 1, one: vChoose("chunk", 2) == 1}
	_, err := ws.ReadFrame(src)
	vAssert(err != nil, "cut.readframe_fails")
	_, err = ws.ReadHeader(&vCutSrc{data: wire, cut: vChoose("hcut", len(wire)-n)})
	vAssert(err != nil, "cut.readheader_fails")
}

// C16_readframe_large_cut: frames announcing more than 1 MiB take ws.ReadFrame's other path (no
// pre-allocation of the announced size): the stream ends, or the transport fails, after 0, 1, 3
// or 600 payload bytes (the end reported alone or together with the last bytes): an error.
func C16_readframe_large_cut() {
	L := []uint64{1<<20 + 1, 1<<20 + 600, 1 << 32, 1 << 62}[vChoose("len", 4)]
	masked := vChoose("masked", 2) == 1
	hdr := []byte{0x82, 127, byte(L >> 56), byte(L >> 48), byte(L >> 40), byte(L >> 32), byte(L >> 24), byte(L >> 16), byte(L >> 8), byte(L)}
	if masked {
		hdr[1] |= 0x80
		hdr = append(hdr, vU8("k0"), vU8("k1"), vU8("k2"), vU8("k3"))
	}
	k := []int{0, 1, 3, 600}[vChoose("have", 4)]
	body := make([]byte, k)
	for i := 0; i < k && i < 3; i++ {
		body[i] = vU8("p")
	}
	wire := append(hdr, body...)
	src := &vCutSrc{data: wire, cut: len(wire), useErr: vChoose("kind", 2) == 1, one: k <= 3 && vChoose("chunk", 2) == 1, withData: vChoose("withdata", 2) == 1}
	f, err := ws.ReadFrame(src)
	vAssert(err != nil, "cut.large_readframe_fails")
	_ = f
}
