//go:build verif

package wsutil

import (
	"github.com/gobwas/ws"
)

// C16_readframe_cut: ws.ReadFrame of a cut frame returns an error.
func C16_readframe_cut() {
	n := 1 + vChoose("plen", 3)
	f := vFrame{fin: true, op: 2, masked: vChoose("masked", 2) == 1, key: [4]byte{1, 2, 3, 4}, payload: vBytes("p", n)}
	wire := vEncode(f)
	cut := vChoose("cut", len(wire))
	src := &vCutSrc{data: wire, cut: cut, useErr: vChoose("kind", 2) == 1, one: vChoose("chunk", 2) == 1}
	_, err := ws.ReadFrame(src)
	vAssert(err != nil, "cut.readframe_fails")
	_, err = ws.ReadHeader(&vCutSrc{data: wire, cut: vChoose("hcut", len(wire)-n)})
	vAssert(err != nil, "cut.readheader_fails")
}
