//go:build verif

package wsutil

import (
	"io"

	"github.com/gobwas/ws"
)

// C04_text_fragments: a text message whose payload is any valid UTF-8 (multi-byte characters
// included) is delivered as the exact concatenation of its fragments wherever the two fragment
// boundaries fall -- inside a character, with an empty fragment in the middle, with a control
// frame in between -- through the checking Reader, ReadMessage and ReadData.
func C04_text_fragments() {
	server := vChoose("side", 2) == 0
	total := 3 + vTier()
	n := vChoose("n", total+1)
	p := vBytes("p", n)
	vAssume(vUTF8Valid(p))
	s1 := vChoose("s1", n+1)
	s2 := s1 + vChoose("s2", n-s1+1)
	key := [4]byte{vU8("k0"), vU8("k1"), vU8("k2"), vU8("k3")}
	wire := vEncode(vFrame{fin: false, op: 1, masked: server, key: key, payload: p[:s1]})
	ctl := vChoose("ctl", 3)
	if ctl == 1 {
		wire = append(wire, vEncode(vFrame{fin: true, op: 9, masked: server, key: key, payload: []byte{0xff}})...)
	}
	wire = append(wire, vEncode(vFrame{fin: false, op: 0, masked: server, key: key, payload: p[s1:s2]})...)
	if ctl == 2 {
		wire = append(wire, vEncode(vFrame{fin: true, op: 10, masked: server, key: key, payload: []byte{0x80}})...)
	}
	wire = append(wire, vEncode(vFrame{fin: true, op: 0, masked: server, key: key, payload: p[s2:]})...)
	wire = append(wire, vEncode(vFrame{fin: true, op: 1, masked: server, key: key, payload: []byte{'o', 'k'}})...)
	src := vNewSrc(wire, vChoose("mode", 2), "chunk")
	switch vChoose("api", 4) {
	case 3:
		// the caller takes one or two bytes (possibly stopping inside a character) and discards
		// the rest: the next message is delivered as by a new reader
		rd := &Reader{Source: &src, State: vSide(server), CheckUTF8: true,
			OnIntermediate: func(h ws.Header, r io.Reader) error {
				_, err := vReadAllB(r, 16)
				if err == io.EOF {
					err = nil
				}
				return err
			}}
		_, err := rd.NextFrame()
		vAssert(err == nil, "textfrag.first_ok")
		if err != nil {
			return
		}
		one := make([]byte, 1)
		for i := vChoose("take", 2); i >= 0; i-- {
			rd.Read(one)
		}
		vAssert(rd.Discard() == nil, "textfrag.discard_ok")
		h, err := rd.NextFrame()
		vAssert(vAnd(err == nil, h.OpCode == ws.OpText), "textfrag.next_after_discard_ok")
		if err != nil {
			return
		}
		got, err := vReadAllB(rd, 16)
		vAssert(vAnd(err == io.EOF, vEqBytes(got, []byte{'o', 'k'})), "textfrag.next_after_discard_payload")
	case 0:
		B := []int{1, 16}[vChoose("B", 2)]
		rd := &Reader{Source: &src, State: vSide(server), CheckUTF8: true,
			OnIntermediate: func(h ws.Header, r io.Reader) error {
				_, err := vReadAllB(r, 16)
				if err == io.EOF {
					err = nil
				}
				return err
			}}
		h, err := rd.NextFrame()
		vAssert(vAnd(err == nil, h.OpCode == ws.OpText), "textfrag.first_ok")
		if err != nil {
			return
		}
		got, err := vReadAllB(rd, B)
		vAssert(err == io.EOF, "textfrag.reader_delivers_valid_text")
		vAssert(vEqBytes(got, p), "textfrag.reader_payload")
		h, err = rd.NextFrame()
		vAssert(vAnd(err == nil, h.OpCode == ws.OpText), "textfrag.next_ok")
		if err != nil {
			return
		}
		got, err = vReadAllB(rd, B)
		vAssert(vAnd(err == io.EOF, vEqBytes(got, []byte{'o', 'k'})), "textfrag.next_payload")
	case 1:
		ms, err := ReadMessage(&src, vSide(server), nil)
		vAssert(err == nil, "textfrag.readmessage_ok")
		if err != nil {
			return
		}
		last := ms[len(ms)-1]
		vAssert(vAnd(last.OpCode == ws.OpText, vEqBytes(last.Payload, p)), "textfrag.readmessage_payload")
	default:
		// ReadData answers the ping itself; the reply goes to a sink
		rw := &vRW{vSrc: src}
		got, op, err := ReadData(rw, vSide(server))
		vAssert(err == nil, "textfrag.readdata_ok")
		if err != nil {
			return
		}
		vAssert(vAnd(op == ws.OpText, vEqBytes(got, p)), "textfrag.readdata_payload")
	}
}
