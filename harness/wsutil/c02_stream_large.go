//go:build verif

package wsutil

// C02_stream_large: the same step for payloads above every pooled buffer size (65536) — where an
// implementation may switch strategy: CipherWriter.Write of 65537..65540 bytes (concrete filler,
// arbitrary bytes at both ends and in the middle) from five running positions: the destination gets
// the XOR, the caller's slice is left intact, whatever the destination accepts.
func C02_stream_large() {
	key := [4]byte{vU8("k0"), vU8("k1"), vU8("k2"), vU8("k3")}
	// (the running position is one of five concrete values here: every residue mod 4 and a huge
	// one; arbitrary positions are C02_stream_step's subject)
	pos := []int{0, 1, 2, 3, 1<<62 + 1}[vChoose("pos", 5)]
	n := 65537 + vChoose("n", 4)
	data := make([]byte, n)
	for i := range data {
		data[i] = byte(i * 7)
	}
	idx := []int{0, 1, 2, 3, n / 2, n - 4, n - 3, n - 2, n - 1}
	for _, i := range idx {
		data[i] = vU8("d")
	}
	pm := uint64(pos) % 4
	// the destination accepts everything, or stops 0..5 bytes before the end (every residue of the
	// accepted count mod 4)
	dst := &vLargeDst{cut: vChoose("cut", 7) - 1}
	cw := NewCipherWriter(dst, key)
	cw.pos = pos
	keep := append([]byte{}, data...)
	got, err := cw.Write(data)
	vAssert(got == len(dst.all), "large.write_count_is_accepted_bytes")
	vAssert((err == nil) == (got == n), "large.write_error_iff_short")
	ok := true
	for _, i := range idx {
		ok = vAnd(ok, data[i] == keep[i])
	}
	vAssert(ok, "large.write_caller_intact")
	ok = true
	for _, i := range idx {
		if i < len(dst.all) {
			ok = vAnd(ok, dst.all[i] == keep[i]^key[(pm+uint64(i%4))%4])
		}
	}
	vAssert(ok, "large.write_xor")
	vAssert(cw.pos == pos+got, "large.write_pos_advances_by_accepted")
}

type vLargeDst struct {
	all []byte
	cut int // -1: accept all; k: accept len(p)-k
}

func (d *vLargeDst) Write(p []byte) (int, error) {
	n := len(p)
	if d.cut >= 0 && d.cut <= n {
		n -= d.cut
	}
	d.all = append(d.all, p[:n]...)
	if n < len(p) {
		return n, vErrDst
	}
	return n, nil
}
