//go:build verif

package wsutil

import (
	"io"

	"github.com/gobwas/ws"
)

func vSmallTail(S []byte, from int) {
	// bytes that may be read as further headers: keep what they can announce small
	// (low 7 bits in {0..3, 8, 9, 10}: data/continuation/control opcodes, lengths <= 10)
	for i := from; i < len(S); i++ {
		l := S[i] & 0x7f
		vAssume(vOr(l <= 3, vIn(l, 8, 10)))
	}
}

// vArbFrames yields arbitrary bytes in one of three layouts the engine can follow:
//
//	0: 6 (thorough 8) bytes: first byte arbitrary, the others with low 7 bits in {0..3,8,9,10}
//	   (several tiny frames of any opcode/fin/mask pattern);
//	1: 8 bytes with the 16-bit length form announcing <= 2, 126 or 65535, tail as in 0;
//	2: 14 bytes with the 64-bit length form announcing <= 2 or anything >= 2^31 (incl. 2^63-1
//	   and values with the top bit set), tail as in 0.
func vArbFrames() []byte {
	switch vChoose("layout", 3) {
	case 0:
		S := vBytes("s", 6+2*vTier())
		vSmallTail(S, 1)
		return S
	case 1:
		S := vBytes("s", 8)
		L16 := uint64(S[2])<<8 | uint64(S[3])
		vAssume(vAnd(S[1]&0x7f == 126, vOr(L16 <= 2, vOr(L16 == 126, L16 == 65535))))
		vSmallTail(S, 4)
		return S
	}
	S := vBytes("s", 14)
	var L64 uint64
	for i := 0; i < 8; i++ {
		L64 = L64<<8 | uint64(S[2+i])
	}
	vAssume(vAnd(S[1]&0x7f == 127, vOr(L64 <= 2, L64 >= 1<<31)))
	vSmallTail(S, 10)
	return S
}

// C15_header_bytes: the two header decoders on 14 fully arbitrary bytes with any cut.
func C15_header_bytes() {
	S := vBytes("s", 14)
	cut := vChoose("cut", 15)
	src := &vCutSrc{data: S, cut: cut, useErr: vChoose("kind", 2) == 1}
	if vChoose("which", 2) == 0 {
		ws.ReadHeader(src)
	} else {
		st := ws.State(vU8("state"))
		vAssume(st <= 7) // not fragmented: NextFrame reads no payload
		rd := &Reader{Source: src, State: st, SkipHeaderCheck: vBool("skip"), MaxFrameSize: int64(vU64("max"))}
		before := src.pos
		_, err := rd.NextFrame()
		_ = before
		if err == nil {
			vAssert(src.pos <= 14, "header.no_read_ahead")
		}
	}
	vAssert(true, "header.returned")
}

// C15_frame_bytes: arbitrary bytes as frames at every decoding entry point: a value or an
// error, never a panic, never a loop without progress (unwinding bound), for any cut.
func C15_frame_bytes() {
	S := vArbFrames()
	n := len(S)
	iters := 1 + vTier()
	cuts := []int{n, 1, 3, 5}
	if vTier() > 0 {
		cuts = []int{n, 0, 1, 2, 3, 4, 5, 7, 9, 11, 13}
	}
	cut := cuts[vChoose("cut", len(cuts))]
	if cut > n {
		cut = n
	}
	server := vChoose("side", 2) == 0
	mk := func() *vCutRW {
		return &vCutRW{vCutSrc: vCutSrc{data: S, cut: cut, useErr: false}}
	}
	switch vChoose("entry", 5) {
	case 0:
		ws.ReadFrame(mk())
	case 1:
		cfg := vChoose("cfg", 3)
		rd := &Reader{Source: mk(), State: vSide(server), CheckUTF8: cfg == 0, SkipHeaderCheck: cfg == 1}
		if cfg == 2 {
			rd.MaxFrameSize = 4
		}
		rd.OnIntermediate = func(h ws.Header, r io.Reader) error {
			_, err := vReadAllB(r, 16)
			if err == io.EOF {
				return nil
			}
			return err
		}
		for i := 0; i < iters; i++ {
			_, err := rd.NextFrame()
			if err != nil {
				break
			}
			if _, err := vReadAllB(rd, 8); err != io.EOF {
				break
			}
		}
	case 2:
		src := mk()
		for i := 0; i < iters; i++ {
			if _, err := ReadMessage(src, vSide(server), nil); err != nil {
				break
			}
		}
	case 3:
		rw := mk()
		for i := 0; i < iters; i++ {
			if _, _, err := readData(rw, vSide(server), ws.OpText); err != nil {
				break
			}
		}
	case 4:
		_, r, err := NextReader(mk(), vSide(server))
		if err == nil {
			vReadAllB(r, 8)
		}
	}
	vAssert(true, "frames.returned")
}

// C15_control_handler: any checked control header with any short payload.
func C15_control_handler() {
	server := vChoose("side", 2) == 0
	n := vChoose("n", 5)
	payload := vBytes("p", n)
	h := ws.Header{Fin: true, OpCode: ws.OpCode(vU8("op")), Length: int64(n), Masked: server}
	h.Mask = [4]byte{vU8("k0"), vU8("k1"), vU8("k2"), vU8("k3")}
	vAssume(h.OpCode <= 15)
	if ws.CheckHeader(h, vSide(server)) != nil {
		return
	}
	dst := &vDst{failAt: -1}
	avail := vChoose("avail", n+1) // the source may deliver fewer bytes than announced
	src := vNewSrc(payload[:avail], 0, "chunk")
	ControlHandler{Src: &src, Dst: dst, State: vSide(server), DisableSrcCiphering: vChoose("nocipher", 2) == 1}.Handle(h)
	vAssert(true, "control.returned")
}

// C15_maxframe_no_payload_read: with a maximum frame size configured, a frame announcing more
// is refused before ANY of its payload is read — from any reader state (fragmented or not),
// whatever the frame kind, with or without header checking.
func C15_maxframe_no_payload_read() {
	st := ws.State(vU8("state"))
	vAssume(st <= 15)
	S := vBytes("hdr", 14)
	extra := vBytes("payload", 3)
	max := int64(vU64("maxframe"))
	vAssume(max > 0)
	l7 := S[1] & 0x7f
	hs := 2
	var L uint64
	switch {
	case l7 == 126:
		hs = 4
		L = uint64(S[2])<<8 | uint64(S[3])
	case l7 == 127:
		hs = 10
		for i := 0; i < 8; i++ {
			L = L<<8 | uint64(S[2+i])
		}
		vAssume(S[2]&0x80 == 0)
	default:
		L = uint64(l7)
	}
	if S[1]&0x80 != 0 {
		hs += 4
	}
	vAssume(L > uint64(max)) // the frame announces more than the limit
	wire := append(append([]byte{}, S[:hs]...), extra...)
	src := vNewSrc(wire, vChoose("mode", 2), "chunk")
	rd := &Reader{Source: &src, State: st, MaxFrameSize: max, SkipHeaderCheck: vBool("skipcheck")}
	if st.Fragmented() {
		rd.opCode = ws.OpText
	}
	handed := 0
	rd.OnIntermediate = func(h ws.Header, r io.Reader) error { handed++; return nil }
	_, err := rd.NextFrame()
	vAssert(err != nil, "maxframe.oversized_frame_refused")
	vAssert(src.pos <= hs, "maxframe.no_payload_byte_read")
	vAssert(handed == 0, "maxframe.no_handler_called")
}
