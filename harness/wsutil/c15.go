//go:build verif

package wsutil

func vSmallTail(S []byte, from int) {
	// bytes that may be read as further headers: keep what they can announce small
	// (low 7 bits in {0..3, 8, 9, 10}: data/continuation/control opcodes, lengths <= 10)
	for i := from; i < len(S); i++ {
		l := S[i] & 0x7f
		vAssume(vOr(l <= 3, vIn(l, 8, 10)))
	}
}

// vArbFrames yields arbitrary bytes in one of three layouts the engine can follow:
//
//	0: 6 (thorough 8) bytes: first byte arbitrary, the others with low 7 bits in {0..3,8,9,10}
//	   (several tiny frames of any opcode/fin/mask pattern);
//	1: 8 bytes with the 16-bit length form announcing <= 2, 126 or 65535, tail as in 0;
//	2: 14 bytes with the 64-bit length form announcing <= 2 or anything >= 2^31 (incl. 2^63-1
//	   and values with the top bit set), tail as in 0.
func vArbFrames() []byte {
	switch vChoose("layout", 3) {
	case 0:
		S := vBytes("s", 6+2*vTier())
		vSmallTail(S, 1)
		return S
	case 1:
		S := vBytes("s", 8)
		L16 := uint64(S[2])<<8 | uint64(S[3])
		vAssume(vAnd(S[1]&0x7f == 126, vOr(L16 <= 2, vOr(L16 == 126, L16 == 65535))))
		vSmallTail(S, 4)
		return S
	}
	S := vBytes("s", 14)
	var L64 uint64
	for i := 0; i < 8; i++ {
		L64 = L64<<8 | uint64(S[2+i])
	}
	vAssume(vAnd(S[1]&0x7f == 127, vOr(L64 <= 2, L64 >= 1<<31)))
	vSmallTail(S, 10)
	return S
}
