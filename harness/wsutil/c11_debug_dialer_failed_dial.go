//go:build verif

package wsutil

import (
	"context"
	"net"

	"github.com/gobwas/ws"
)

// C11_debug_dialer_failed_dial: the debugging dialer reports exactly the bytes exchanged and
// does not change the outcome — also when nothing was exchanged because the dial failed.
func C11_debug_dialer_failed_dial() {
	var req, resp []byte
	gotReq, gotResp := false, false
	d := DebugDialer{
		Dialer: ws.Dialer{NetDial: func(ctx context.Context, network, addr string) (net.Conn, error) {
			return nil, vErrSrc
		}},
	}
	if vChoose("onrequest", 2) == 1 {
		d.OnRequest = func(p []byte) { gotReq = true; req = append(req, p...) }
	}
	if vChoose("onresponse", 2) == 1 {
		d.OnResponse = func(p []byte) { gotResp = true; resp = append(resp, p...) }
	}
	conn, br, _, err := d.Dial(context.Background(), "ws://example.com/path")
	vAssert(err == vErrSrc, "debug.outcome_is_the_dial_error")
	vAssert(vAnd(conn == nil, br == nil), "debug.no_conn_on_failed_dial")
	vAssert(vAnd(len(req) == 0, len(resp) == 0), "debug.nothing_exchanged_nothing_reported")
	_, _ = gotReq, gotResp
}
