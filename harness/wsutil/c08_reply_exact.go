//go:build verif

package wsutil

import (
	"bytes"

	"github.com/gobwas/ws"
)

// C08_reply_exact: the automatic reply to every ping/pong/close is exactly what RFC 6455
// asks for and is a frame the peer's own checks accept.
func C08_reply_exact() {
	server := vChoose("side", 2) == 0
	st := vSide(server)
	op := ws.OpCode([]byte{9, 10, 8}[vChoose("op", 3)])
	lens := []int{0, 1, 2, 3, 4, 12, 125}
	if vTier() > 0 {
		lens = []int{0, 1, 2, 3, 4, 5, 6, 7, 8, 9, 16, 17, 63, 64, 123, 124, 125}
	}
	n := lens[vChoose("len", len(lens))]
	var payload []byte
	if op == ws.OpClose && n > 6 {
		// code + 4 symbolic reason bytes + concrete ASCII filler (keeps UTF-8 validation tractable)
		payload = append(vBytes("p", 6), bytes.Repeat([]byte{'a'}, n-6)...)
	} else {
		payload = vBytes("p", n)
	}
	keep := append([]byte{}, payload...)
	dst := &vDst{failAt: -1}
	h := ws.Header{Fin: true, OpCode: op, Length: int64(n), Masked: server}
	if server {
		// the header as it came off the wire: the Reader / ReadData helpers hand the handler
		// the original header (mask included) together with an already unmasked payload
		h.Mask = [4]byte{vU8("k0"), vU8("k1"), vU8("k2"), vU8("k3")}
	}
	var err error
	consumed := -1
	switch vChoose("entry", 5) {
	case 0: // ControlHandler with plain source
		// (mode 3: the last bytes of the payload arrive together with io.EOF)
		src := vNewSrc(append([]byte{}, payload...), []int{0, 1, 5, 3}[vChoose("mode", 4)], "chunk")
		err = ControlHandler{Src: &src, Dst: dst, State: st, DisableSrcCiphering: true}.Handle(h)
		consumed = src.pos
	case 1: // ControlHandler un-ciphering a masked source itself (server side only)
		if !server {
			vAssume(false)
		}
		masked := make([]byte, n)
		for i := range masked {
			masked[i] = payload[i] ^ h.Mask[i%4]
		}
		src := vNewSrc(masked, []int{0, 1, 5, 3}[vChoose("mode", 4)], "chunk")
		err = ControlHandler{Src: &src, Dst: dst, State: st}.Handle(h)
	case 2:
		src := vNewSrc(append([]byte{}, payload...), 0, "chunk")
		err = ControlFrameHandler(dst, st)(h, &src)
	case 4: // the frame arrives BETWEEN the fragments of a data message, on the wire (masked with the
		// key when the peer is a client), and is handled through the read helpers
		k := h.Mask
		wire := vEncode(vFrame{fin: false, op: 2, masked: server, key: k, payload: []byte{'d'}})
		wire = append(wire, vEncode(vFrame{fin: true, op: byte(op), masked: server, key: k, payload: payload})...)
		wire = append(wire, vEncode(vFrame{fin: true, op: 0, masked: server, key: k, payload: []byte{'e'}})...)
		rw := &vRW{vSrc: vNewSrc(wire, []int{0, 1, 5}[vChoose("mode", 3)], "chunk")}
		var data []byte
		data, _, err = readData(rw, st, ws.OpBinary)
		dst.all = rw.out
		if op != ws.OpClose {
			vAssert(vAnd(err == nil, vEqBytes(data, []byte("de"))), "reply.data_message_around_control_intact")
		}
	case 3:
		err = HandleControlMessage(dst, st, Message{OpCode: op, Payload: payload})
		vAssert(vEqBytes(payload, keep), "reply.message_payload_intact")
	}
	if consumed >= 0 && err == nil {
		// the frame's payload has been taken from the source, so the stream stays in step
		vAssert(consumed == n, "reply.source_payload_consumed")
	}
	fs, ok := vParseFrames(dst.all)
	vAssert(ok, "reply.whole_frames")
	if !ok {
		return
	}
	peer := vSide(!server)
	for _, f := range fs {
		// every reply passes the peer's own header check
		ph := ws.Header{Fin: f.fin, Rsv: f.rsv, OpCode: ws.OpCode(f.op), Masked: f.masked, Mask: f.key, Length: int64(len(f.payload))}
		vAssert(ws.CheckHeader(ph, peer) == nil, "reply.peer_accepts_header")
		vAssert(vAnd(f.fin, vAnd(len(f.payload) <= 125, f.masked == !server)), "reply.single_final_masked_iff_client")
	}
	switch op {
	case ws.OpPing:
		vAssert(err == nil, "reply.ping_noerr")
		vAssert(len(fs) == 1, "reply.ping_one_pong")
		if len(fs) == 1 {
			vAssert(vAnd(fs[0].op == 10, vEqBytes(fs[0].payload, keep)), "reply.pong_same_payload")
			vTraceBytes("pong", fs[0].payload)
		}
	case ws.OpPong:
		vAssert(vAnd(err == nil, len(dst.all) == 0), "reply.pong_nothing")
	case ws.OpClose:
		vAssert(len(fs) == 1, "reply.close_one_frame")
		if len(fs) != 1 {
			return
		}
		f := fs[0]
		vAssert(f.op == 8, "reply.close_opcode")
		ce, isClosed := err.(ClosedError)
		_, isProto := err.(ws.ProtocolError)
		if n == 0 {
			vAssert(vAnd(isClosed, len(f.payload) == 0), "reply.empty_close_for_empty")
			return
		}
		// every non-empty close reply carries a payload the peer's close check accepts
		if len(f.payload) >= 2 {
			rc, rr := ws.ParseCloseFrameData(f.payload)
			vAssert(ws.CheckCloseFrameData(rc, rr) == nil, "reply.peer_accepts_close_payload")
		}
		if n == 1 {
			vAssert(isProto, "reply.one_byte_close_is_protocol_error")
			vAssert(vAnd(len(f.payload) >= 2, vAnd(f.payload[0] == 0x03, f.payload[1] == 0xEA)), "reply.one_byte_close_answered_1002")
			return
		}
		valid, open := vCloseOracle(keep)
		code := uint16(keep[0])<<8 | uint16(keep[1])
		if isClosed {
			vAssert(vOr(valid, open), "reply.closed_only_if_valid")
			vAssert(vAnd(uint16(ce.Code) == code, vEqBytes([]byte(ce.Reason), keep[2:])), "reply.reports_code_and_reason")
			vAssert(vAnd(len(f.payload) >= 2, vAnd(f.payload[0] == keep[0], f.payload[1] == keep[1])), "reply.echoes_code")
		} else {
			vAssert(isProto, "reply.invalid_is_protocol_error")
			vAssert(!valid, "reply.protocol_error_only_if_invalid")
			is1002 := vAnd(f.payload[0] == 0x03, f.payload[1] == 0xEA)
			is1007 := vAnd(f.payload[0] == 0x03, f.payload[1] == 0xEF)
			vAssert(vAnd(len(f.payload) >= 2, vOr(is1002, is1007)), "reply.invalid_answered_1002_or_1007")
		}
	}
}
