//go:build verif

package wsutil

import (
	"io"

	"github.com/gobwas/ws"
)

// C04_nextreader_discard: NextReader + draining, and Reader.Discard across fragments with
// interleaved control frames; the next message starts exactly after the discarded one.
func C04_nextreader_discard() {
	server := vChoose("side", 2) == 0
	k, mp, mode, _ := vVariant()
	wire, items := vGenStream(server, k, mp, true)
	src := vNewSrc(wire, mode, "chunk")
	if vChoose("api", 2) == 0 {
		// NextReader reads the first frame; draining gives the first item
		h, r, err := NextReader(&src, vSide(server))
		vAssert(err == nil, "nr.ok")
		if err != nil {
			return
		}
		vAssert(byte(h.OpCode) == items[0].op, "nr.opcode")
		p, err := vReadAllB(r, 16)
		vAssert(err == io.EOF, "nr.eof")
		vAssert(vEqBytes(p, items[0].payload), "nr.payload")
		return
	}
	rd := &Reader{Source: &src, State: vSide(server), CheckUTF8: true}
	nint := 0
	rd.OnIntermediate = func(h ws.Header, r io.Reader) error { nint++; return nil }
	for n, it := range items {
		h, err := rd.NextFrame()
		vAssert(err == nil, "disc.nextframe_ok")
		if err != nil {
			return
		}
		vAssert(byte(h.OpCode) == it.op, "disc.opcode")
		if n%2 == 0 {
			vAssert(rd.Discard() == nil, "disc.discard_ok")
		} else {
			p, err := vReadAllB(rd, 16)
			vAssert(err == io.EOF, "disc.eof")
			vAssert(vEqBytes(p, it.payload), "disc.payload_after_discard")
		}
		vAssert(!rd.State.Fragmented(), "disc.not_fragmented")
	}
	vAssert(src.pos == len(wire), "disc.all_consumed")
}
