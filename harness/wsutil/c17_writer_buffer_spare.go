//go:build verif

package wsutil

import (
	"github.com/gobwas/ws"
)

// C17_writer_buffer_spare: a writer built over a caller's slice (NewWriterBuffer) owns the
// len(buf) bytes it was given and nothing else: the bytes behind them in the same backing array
// (a slab carved into several buffers, the live rest of a larger buffer) are the caller's and
// stay as they are whatever the writer does -- buffered writes, growth in no-flush mode (by an
// overflowing Write or an explicit Grow), fragments, client-side masking.
func C17_writer_buffer_spare() {
	server := vChoose("side", 2) == 0
	slab := vBytes("slab", 64)
	keep := append([]byte{}, slab...)
	own := []int{16, 24, 32}[vChoose("own", 3)]
	dst := &vDst{failAt: -1}
	w := NewWriterBuffer(dst, vSide(server), ws.OpBinary, slab[:own])
	noflush := vChoose("noflush", 2) == 1
	if noflush {
		w.DisableFlush()
	}
	n := []int{3, 20, 40, 100}[vChoose("n", 4)]
	p := make([]byte, n)
	for i := range p {
		p[i] = byte('a' + i%26)
	}
	if n >= 3 {
		p[0], p[n-1] = vU8("p0"), vU8("pz")
	}
	switch vChoose("how", 3) {
	case 0:
		k, err := w.Write(p)
		vAssert(vAnd(err == nil, k == n), "spare.write_ok")
	case 1:
		w.Grow(n)
		k, err := w.Write(p)
		vAssert(vAnd(err == nil, k == n), "spare.write_after_grow_ok")
	case 2:
		w.Write(p[:1])
		if noflush {
			w.Grow(n)
		}
		k, err := w.Write(p[1:])
		vAssert(vAnd(err == nil, k == n-1), "spare.second_write_ok")
	}
	vAssert(vEqBytes(slab[own:], keep[own:]), "spare.callers_bytes_behind_the_buffer_untouched_before_flush")
	vAssert(w.Flush() == nil, "spare.flush_ok")
	vAssert(vEqBytes(slab[own:], keep[own:]), "spare.callers_bytes_behind_the_buffer_untouched")
	fs, ok := vParseFrames(dst.all)
	vAssert(ok, "spare.whole_frames")
	if !ok {
		return
	}
	var got []byte
	for _, f := range fs {
		got = append(got, f.payload...)
	}
	vAssert(vEqBytes(got, p), "spare.payload_delivered")
}
