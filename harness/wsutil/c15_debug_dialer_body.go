//go:build verif

package wsutil

import (
	"context"
	"net"
	"strconv"

	"github.com/gobwas/ws"
)

// C15_debug_dialer_body: the debugging dialer against a peer that refuses the handshake with a
// body: the announced Content-Length is 0, small, larger than what the peer then sends before it
// hangs up, or enormous (2^31, 2^63-1), or absent; 0, 3 or 40 body bytes arrive.  Dial returns an
// error, nothing panics, and OnResponse is handed exactly the bytes that arrived (head + the part
// of the body that belongs to the response).
func C15_debug_dialer_body() {
	vRandConcrete(true)
	status := []string{"400 Bad Request", "500 Oops", "200 OK"}[vChoose("status", 3)]
	announced := []int64{-1, 0, 3, 40, 100000, 1 << 31, 1<<63 - 1}[vChoose("announced", 7)]
	have := []int{0, 3, 40}[vChoose("have", 3)]
	head := "HTTP/1.1 " + status + "\r\n"
	if announced >= 0 {
		head += "Content-Length: " + strconv.FormatInt(announced, 10) + "\r\n"
	}
	head += "X-Why: no\r\n\r\n"
	body := make([]byte, have)
	for i := range body {
		body[i] = byte('a' + i%26)
	}
	if have > 0 {
		body[0] = vU8("b0")
	}
	conn := &vScriptConn{answer: append([]byte(head), body...)}
	var resp []byte
	calls := 0
	d := DebugDialer{Dialer: ws.Dialer{ReadBufferSize: []int{0, 40}[vChoose("readbuf", 2)], NetDial: func(ctx context.Context, network, addr string) (net.Conn, error) { return conn, nil }}}
	d.OnResponse = func(p []byte) { calls++; resp = append(resp, p...) }
	if vChoose("onrequest", 2) == 1 {
		d.OnRequest = func(p []byte) {}
	}
	_, br, _, err := d.Dial(context.Background(), "ws://example.com/path")
	vAssert(err != nil, "debugbody.refused_handshake_is_error")
	vAssert(br == nil, "debugbody.no_reader")
	vAssert(calls == 1, "debugbody.onresponse_called_once")
	want := len(head) + have
	if announced >= 0 && int64(have) > announced {
		want = len(head) + int(announced)
	}
	vAssert(len(resp) <= len(conn.answer), "debugbody.reports_no_more_than_arrived")
	vAssert(vAnd(len(resp) >= len(head), vEqBytes(resp[:len(head)], []byte(head))), "debugbody.head_reported")
	vAssert(len(resp) == want, "debugbody.body_part_reported")
}
