//go:build verif

package wsutil

import (
	"github.com/gobwas/ws"
)

// C08_controlwriter_limit: whatever sequence of writes it is given, the control writer emits
// nothing or a single final frame of at most 125 payload bytes; overflowing writes fail.
func C08_controlwriter_limit() {
	server := vChoose("side", 2) == 0
	op := ws.OpCode([]byte{9, 10, 8}[vChoose("op", 3)])
	dst := &vDst{failAt: -1}
	var cw *ControlWriter
	if vChoose("ctor", 2) == 0 {
		cw = NewControlWriter(dst, vSide(server), op)
	} else {
		sz := []int{40, 131, 200}[vChoose("bufsize", 3)]
		cw = NewControlWriterBuffer(dst, vSide(server), op, make([]byte, sz))
	}
	limit := cw.limit
	vAssert(limit <= 125, "cw.limit_at_most_125")
	lens := []int{0, 1, 20, 62, 63, 100, 124, 125, 126}
	total := 0
	writes := 3 + vTier()
	for i := 0; i < writes; i++ {
		l := lens[vChoose("wlen", len(lens))]
		p := make([]byte, l)
		if l > 0 {
			p[0], p[l-1] = vU8("pa"), vU8("pb")
		}
		k, err := cw.Write(p)
		if total+l > limit {
			vAssert(vAnd(err == ErrControlOverflow, k == 0), "cw.overflowing_write_fails")
		} else {
			vAssert(vAnd(err == nil, k == l), "cw.fitting_write_accepted")
			total += l
		}
		vAssert(len(dst.all) == 0, "cw.nothing_sent_before_flush")
	}
	vAssert(cw.Flush() == nil, "cw.flush_ok")
	fs, ok := vParseFrames(dst.all)
	vAssert(ok, "cw.whole_frames")
	vAssert(len(fs) <= 1, "cw.at_most_one_frame")
	for _, f := range fs {
		vAssert(vAnd(f.fin, vAnd(f.op == byte(op), vAnd(len(f.payload) <= 125, f.masked == !server))), "cw.single_final_control_frame")
		vAssert(len(f.payload) == total, "cw.payload_is_accepted_bytes")
	}
}
