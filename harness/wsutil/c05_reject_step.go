//go:build verif

package wsutil

import (
	"io"

	"github.com/gobwas/ws"
)

// C05_reject_step (inductive step): from an arbitrary reader state between frames, for an
// ARBITRARY next header: protocol error iff the oracle rejects, size-limit error iff valid and
// too large; in both cases not one payload byte is consumed and the state is unchanged.
func C05_reject_step() {
	st := ws.State(vU8("state"))
	vAssume(st <= 15)
	server := st&ws.StateServerSide != 0
	client := st&ws.StateClientSide != 0
	ext := st&ws.StateExtended != 0
	frag := st&ws.StateFragmented != 0
	S := vBytes("hdr", 14)
	extra := vBytes("payload", 3)
	max := int64(vU64("maxframe"))
	// reference header decode
	b0, b1 := S[0], S[1]
	fin, rsv, op := b0&0x80 != 0, (b0>>4)&7, b0&15
	masked := b1&0x80 != 0
	l7 := b1 & 0x7f
	hs := 2
	var L uint64
	switch {
	case l7 == 126:
		hs = 4
		L = uint64(S[2])<<8 | uint64(S[3])
	case l7 == 127:
		hs = 10
		for i := 0; i < 8; i++ {
			L = L<<8 | uint64(S[2+i])
		}
	default:
		L = uint64(l7)
	}
	if masked {
		hs += 4
	}
	msb := vAnd(l7 == 127, S[2]&0x80 != 0)
	vAssume(!msb) // not a header in the property's sense (C01 covers it)
	wire := append(append([]byte{}, S[:hs]...), extra...)
	src := vNewSrc(wire, vChoose("mode", 2), "chunk")
	rd := &Reader{Source: &src, State: st, MaxFrameSize: max, CheckUTF8: vBool("utf8")}
	if frag {
		rd.opCode = ws.OpCode(1 + vChoose("openop", 2))
	}
	// receive extensions installed on the reader (the normal set-up of an extended connection):
	// none, an empty non-nil list, or one that passes every header through -- the verdict on the
	// header is the same
	switch vChoose("exts", 3) {
	case 1:
		rd.Extensions = []RecvExtension{}
	case 2:
		rd.Extensions = []RecvExtension{RecvExtensionFunc(func(h ws.Header) (ws.Header, error) { return h, nil })}
	}
	nint := 0
	rd.OnIntermediate = func(h ws.Header, r io.Reader) error { nint++; return nil }
	broken := vHeaderBroken(fin, rsv, op, masked, L, server, client, ext, frag)
	tooLarge := vAnd(!broken, vAnd(max > 0, L > uint64(max)))
	// keep accepted intermediate control payloads within the 3 bytes the stub can serve
	vAssume(vImplies(vAnd(!broken, vAnd(!tooLarge, vAnd(frag, op&8 != 0))), L <= 3))
	// with the RFC header check switched off (SkipHeaderCheck) the size limit still holds
	if vChoose("skipheadercheck", 2) == 1 {
		rd.SkipHeaderCheck = true
		// (only frames over the limit: what an unchecked header under the limit makes the reader
		// do is outside this property)
		vAssume(vAnd(max > 0, L > uint64(max)))
		_, err := rd.NextFrame()
		vAssert(err == ErrFrameTooLarge, "step.size_limit_holds_without_header_check")
		vAssert(src.pos == hs, "step.no_payload_byte_consumed_without_header_check")
		return
	}
	h, err := rd.NextFrame()
	_, isProto := err.(ws.ProtocolError)
	vAssert(isProto == broken, "step.protocol_error_iff_broken")
	vAssert((err == ErrFrameTooLarge) == tooLarge, "step.too_large_iff")
	if broken || tooLarge {
		vAssert(src.pos == hs, "step.no_payload_byte_consumed")
		vAssert(rd.State == st, "step.state_unchanged_on_reject")
		vAssert(nint == 0, "step.no_handler_on_reject")
		return
	}
	vAssert(err == nil, "step.valid_accepted")
	if err != nil {
		return
	}
	vAssert(vAnd(h.Fin == fin, vAnd(byte(h.OpCode) == op, vAnd(h.Masked == masked, uint64(h.Length) == L))), "step.header_fields")
	control := op&8 != 0
	if control {
		vAssert(rd.State == st, "step.control_keeps_state")
		vAssert((nint == 1) == frag, "step.intermediate_handler_iff_fragmented")
	} else {
		wantFrag := !fin
		vAssert(rd.State.Fragmented() == wantFrag, "step.fragmented_tracks_fin")
		vAssert(rd.State&^ws.StateFragmented == st&^ws.StateFragmented, "step.other_bits_kept")
		vAssert(src.pos == hs, "step.data_payload_not_prefetched")
	}
}
