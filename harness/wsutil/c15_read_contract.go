//go:build verif

package wsutil

import (
	"github.com/gobwas/ws"
)

// C15_read_contract: a fragmented text or binary message with arbitrary payload bytes (first
// fragment 3 bytes, final fragment 0..1 bytes — possibly cutting a multi-byte sequence), read
// with UTF-8 checking through caller buffers that SHRINK from one Read to the next (8 bytes, then
// 1 byte): every Read returns 0 <= n <= len(p) (otherwise callers such as io.ReadAll panic),
// and the loop ends within a bounded number of reads.
func C15_read_contract() {
	server := vChoose("side", 2) == 0
	key := [4]byte{vU8("k0"), vU8("k1"), vU8("k2"), vU8("k3")}
	op := byte(1 + vChoose("op", 2))
	a := vBytes("a", 3)
	b := vBytes("b", vChoose("blen", 2))
	wire := vEncode(vFrame{fin: false, op: op, masked: server, key: key, payload: a})
	wire = append(wire, vEncode(vFrame{fin: true, op: 0, masked: server, key: key, payload: b})...)
	src := vNewSrc(wire, vChoose("mode", 2), "chunk")
	rd := &Reader{Source: &src, State: vSide(server), CheckUTF8: true}
	if _, err := rd.NextFrame(); err != nil {
		return
	}
	sizes := []int{8, 1, 1, 1, 1, 1, 1, 1}
	if vChoose("grow", 2) == 1 {
		sizes = []int{1, 8, 1, 8, 1, 8, 1, 8}
	}
	done := false
	for _, sz := range sizes {
		p := make([]byte, sz)
		n, err := rd.Read(p)
		vAssert(vAnd(n >= 0, n <= len(p)), "contract.read_count_within_buffer")
		if err != nil {
			done = true
			break
		}
	}
	vAssert(done, "contract.read_loop_ends")
	_ = ws.OpText
}
