//go:build verif

package wsutil

import (
	"github.com/gobwas/ws"
)

// C04_read_wrappers: every exported Read* helper is the generic reader with the right side and
// the right opcode filter.
func C04_read_wrappers() {
	tp := vBytes("t", 2)
	for _, c := range tp {
		vAssume(c < 0x80)
	}
	bp := vBytes("b", 2)
	which := vChoose("fn", 8)
	server := which < 4 // ReadClient* are used by servers
	key := [4]byte{vU8("k0"), vU8("k1"), vU8("k2"), vU8("k3")}
	order := vChoose("order", 2)
	first, second := vFrame{fin: true, op: 1, masked: server, key: key, payload: tp}, vFrame{fin: true, op: 2, masked: server, key: key, payload: bp}
	if order == 1 {
		first, second = second, first
	}
	wire := append(vEncode(first), vEncode(second)...)
	rw := &vRW{vSrc: vNewSrc(wire, 0, "chunk")}
	var got []byte
	var op ws.OpCode
	var err error
	wantOp := byte(0)
	switch which {
	case 0:
		got, op, err = ReadClientData(rw)
	case 1:
		got, err = ReadClientText(rw)
		wantOp = 1
	case 2:
		got, err = ReadClientBinary(rw)
		wantOp = 2
	case 3:
		got, op, err = ReadData(rw, ws.StateServerSide)
	case 4:
		got, op, err = ReadServerData(rw)
	case 5:
		got, err = ReadServerText(rw)
		wantOp = 1
	case 6:
		got, err = ReadServerBinary(rw)
		wantOp = 2
	case 7:
		got, op, err = ReadData(rw, ws.StateClientSide)
	}
	vAssert(err == nil, "wrap.read_ok")
	if wantOp == 0 { // unfiltered: the first message, with its opcode
		vAssert(vAnd(byte(op) == first.op, vEqBytes(got, first.payload)), "wrap.data_returns_first_message")
	} else if wantOp == 1 {
		vAssert(vEqBytes(got, tp), "wrap.text_filter")
	} else {
		vAssert(vEqBytes(got, bp), "wrap.binary_filter")
	}
	// ReadClientMessage / ReadServerMessage
	src := vNewSrc(wire, 0, "chunk2")
	var ms []Message
	if server {
		ms, err = ReadClientMessage(&src, nil)
	} else {
		ms, err = ReadServerMessage(&src, nil)
	}
	vAssert(vAnd(err == nil, vAnd(len(ms) == 1, vAnd(byte(ms[0].OpCode) == first.op, vEqBytes(ms[0].Payload, first.payload)))), "wrap.readmessage")
}
