//go:build verif

package wsutil

import (
	"github.com/gobwas/ws"
)

// C06_ctor_sizes: every constructor yields the documented payload capacity at the header-form
// thresholds, and a message of exactly that size leaves as ONE frame with the minimal length form.
func C06_ctor_sizes() {
	server := vChoose("side", 2) == 0
	st := vSide(server)
	ns := []int{1, 2, 3, 124, 125, 126, 127, 128}
	if vTier() > 0 {
		ns = append(ns, 65534, 65535, 65536, 65537)
	}
	n := ns[vChoose("n", len(ns))]
	dst := &vDst{failAt: -1}
	var w *Writer
	ctor := vChoose("ctor", 3)
	if ctor != 0 && n == 3 {
		// a raw buffer of 3 bytes cannot hold a client-side header: NewWriterBuffer documents a panic
		vAssume(false)
	}
	switch ctor {
	case 0:
		w = NewWriterSize(dst, st, ws.OpBinary, n)
		vAssert(w.Size() == n, "ctor.newwritersize_payload_capacity")
	case 1:
		w = NewWriterBufferSize(dst, st, ws.OpBinary, n)
		if n <= 2 {
			vAssert(w.Size() == DefaultWriteBuffer-reserve(st, DefaultWriteBuffer), "ctor.tiny_size_means_default")
		} else {
			vAssert(w.Size() == n-reserve(st, n), "ctor.buffersize_minus_header_space")
		}
	case 2:
		w = GetWriter(dst, st, ws.OpBinary, n)
		vAssert(w.Size() >= 1, "ctor.getwriter_usable")
	}
	vAssert(vAnd(w.Buffered() == 0, w.Available() == w.Size()), "ctor.empty")
	size := w.Size()
	if size > 70000 {
		return
	}
	p := make([]byte, size)
	p[0], p[size-1] = vU8("p0"), vU8("pl")
	k, err := w.Write(p)
	vAssert(vAnd(err == nil, k == size), "ctor.write_fills_exactly")
	vAssert(len(dst.calls) == 0, "ctor.exact_fit_is_buffered")
	vAssert(w.Flush() == nil, "ctor.flush_ok")
	fs, ok := vParseFrames(dst.all)
	vAssert(vAnd(ok, len(fs) == 1), "ctor.one_frame")
	if ok && len(fs) == 1 {
		vAssert(vAnd(fs[0].fin, vAnd(fs[0].masked == !server, vEqBytes(fs[0].payload, p))), "ctor.frame")
		hs := 2
		if size > 125 {
			hs = 4
		}
		if size > 65535 {
			hs = 10
		}
		if !server {
			hs += 4
		}
		vAssert(len(dst.all) == hs+size, "ctor.minimal_length_form")
	}
}
