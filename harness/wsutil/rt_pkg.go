//go:build verif

package wsutil

func vPrepare()     {}
func vPoisonPools() {}
