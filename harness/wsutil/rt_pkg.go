//go:build verif

package wsutil

import (
	"io"
	"runtime/debug"

	"github.com/gobwas/pool/pbufio"
	"github.com/gobwas/pool/pbytes"
)

func vPrepare() { debug.SetGCPercent(-1) }

type vScribble struct{}

func (vScribble) Read(p []byte) (int, error) {
	for i := range p {
		p[i] = 0xA5
	}
	return len(p), nil
}

// vPoisonPools (native side): recycle every size class of the library's byte and bufio pools
// and overwrite the recycled memory.  Under the engine the call is intercepted: the content of
// every buffer that was returned to a pool becomes arbitrary.
func vPoisonPools() {
	for size := 128; size <= 65536; size <<= 1 {
		var held [][]byte
		for i := 0; i < 4; i++ {
			b := pbytes.GetLen(size)
			for j := range b {
				b[j] = 0xA5
			}
			held = append(held, b)
		}
		for _, b := range held {
			pbytes.Put(b)
		}
	}
	for size := 256; size <= 65536; size <<= 1 {
		r := pbufio.GetReader(vScribble{}, size)
		r.Peek(size)
		pbufio.PutReader(r)
		w := pbufio.GetWriter(io.Discard, size)
		buf := make([]byte, size-1)
		for j := range buf {
			buf[j] = 0xA5
		}
		w.Write(buf)
		pbufio.PutWriter(w)
	}
}
