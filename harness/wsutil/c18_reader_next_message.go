//go:build verif

package wsutil

import (
	"io"

	"github.com/gobwas/ws"
)

// C18_reader_next_message: after a complete message has been delivered or discarded the
// reader's message state equals a fresh reader's.
func C18_reader_next_message() {
	server := vChoose("side", 2) == 0
	wire, items := vGenStream(server, 2, 1, false)
	src := vNewSrc(wire, 0, "chunk")
	// the connection's own configuration bits (an extension was negotiated) are not message state
	st := vSide(server)
	if vChoose("extended", 2) == 1 {
		st |= ws.StateExtended
	}
	rd := &Reader{Source: &src, State: st, CheckUTF8: vBool("utf8")}
	rd.OnIntermediate = func(h ws.Header, r io.Reader) error { return nil }
	for n := range items {
		_, err := rd.NextFrame()
		if err != nil {
			return
		}
		if vChoose("how", 2) == 0 {
			p, err := vReadAllB(rd, 16)
			if err != io.EOF {
				return // invalid UTF-8 (text bytes are arbitrary here): not a delivered message
			}
			// ... and what it delivers is what a new reader would deliver: the message's bytes
			// (mask keys are symbolic and independent per frame, equal keys included)
			vAssert(vEqBytes(p, items[n].payload), "reader.next_message_read_as_new")
		} else if rd.Discard() != nil {
			return
		}
		fresh := &Reader{}
		same := vAnd(rd.opCode == fresh.opCode, vAnd(rd.frame == nil, vAnd(rd.raw.N == 0, rd.raw.R == nil)))
		same = vAnd(same, vAnd(rd.utf8.state == 0, vAnd(rd.utf8.codep == 0, rd.utf8.accepted == 0)))
		same = vAnd(same, rd.State == st)
		vAssert(same, "reader.message_state_as_new")
	}
}
