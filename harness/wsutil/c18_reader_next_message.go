//go:build verif

package wsutil

import (
	"io"

	"github.com/gobwas/ws"
)

// C18_reader_next_message: after a complete message has been delivered or discarded the
// reader's message state equals a fresh reader's.
func C18_reader_next_message() {
	server := vChoose("side", 2) == 0
	wire, items := vGenStream(server, 2, 1, false)
	src := vNewSrc(wire, 0, "chunk")
	rd := &Reader{Source: &src, State: vSide(server), CheckUTF8: vBool("utf8")}
	rd.OnIntermediate = func(h ws.Header, r io.Reader) error { return nil }
	for n := range items {
		_, err := rd.NextFrame()
		if err != nil {
			return
		}
		if vChoose("how", 2) == 0 {
			if _, err := vReadAllB(rd, 16); err != io.EOF {
				return // invalid UTF-8 (text bytes are arbitrary here): not a delivered message
			}
		} else if rd.Discard() != nil {
			return
		}
		fresh := &Reader{}
		same := vAnd(rd.opCode == fresh.opCode, vAnd(rd.frame == nil, vAnd(rd.raw.N == 0, rd.raw.R == nil)))
		same = vAnd(same, vAnd(rd.utf8.state == 0, vAnd(rd.utf8.codep == 0, rd.utf8.accepted == 0)))
		same = vAnd(same, rd.State == vSide(server))
		vAssert(same, "reader.message_state_as_new")
		_ = n
	}
}
