//go:build verif

package wsutil

import (
	"io"
)

// C07_reader_text: with CheckUTF8, a (possibly fragmented) text message is delivered without
// error iff the whole payload is valid UTF-8, wherever the fragment boundary / interleaved
// control frame / read boundary falls; binary is never checked; the next message starts clean.
func C07_reader_text() {
	server := vChoose("side", 2) == 0
	total := 3 + vTier()
	n := vChoose("n", total+1)
	p := vBytes("p", n)
	split := vChoose("split", n+2) // n+1 = unfragmented
	op := byte(1 + vChoose("op", 2))
	var wire []byte
	key := [4]byte{vU8("k0"), vU8("k1"), vU8("k2"), vU8("k3")}
	if split == n+1 {
		wire = vEncode(vFrame{fin: true, op: op, masked: server, key: key, payload: p})
	} else {
		wire = vEncode(vFrame{fin: false, op: op, masked: server, key: key, payload: p[:split]})
		switch vChoose("ctl", 3) {
		case 1:
			wire = append(wire, vEncode(vFrame{fin: true, op: 9, masked: server, key: key, payload: []byte{0xff}})...)
		case 2: // an empty fragment between the two halves
			wire = append(wire, vEncode(vFrame{fin: false, op: 0, masked: server, key: key})...)
		}
		wire = append(wire, vEncode(vFrame{fin: true, op: 0, masked: server, key: key, payload: p[split:]})...)
	}
	// the message that follows on the same connection: valid text, a binary message that would be
	// invalid as text, or text that is invalid on its own but would complete a sequence left open
	// by the first message
	next := vChoose("next", 3)
	nextOp, nextP := byte(1), []byte{'o', 'k'}
	switch next {
	case 1:
		nextOp, nextP = 2, []byte{0xA9}
	case 2:
		nextP = []byte{0xA9}
	}
	wire = append(wire, vEncode(vFrame{fin: true, op: nextOp, masked: server, key: key, payload: nextP})...)
	valid := vUTF8Valid(p)
	src := vNewSrc(wire, vChoose("mode", 2), "chunk")
	if vChoose("api", 2) == 0 {
		B := []int{1, 16}[vChoose("B", 2)]
		rd := &Reader{Source: &src, State: vSide(server), CheckUTF8: true}
		_, err := rd.NextFrame()
		vAssert(err == nil, "text.first_ok")
		if n > 0 && vChoose("abandon", 2) == 1 {
			// the caller reads one byte of the first message and discards the rest: the next
			// message is judged on its own
			one := make([]byte, 1)
			rd.Read(one)
			if rd.Discard() != nil {
				return
			}
			h, err := rd.NextFrame()
			vAssert(vAnd(err == nil, byte(h.OpCode) == nextOp), "text.after_discard_next_ok")
			if err != nil {
				return
			}
			got, err := vReadAllB(rd, B)
			if next == 2 {
				vAssert(err == ErrInvalidUTF8, "text.after_discard_invalid_text_rejected")
			} else {
				vAssert(vAnd(err == io.EOF, vEqBytes(got, nextP)), "text.after_discard_next_clean")
			}
			return
		}
		got, err := vReadAllB(rd, B)
		if op == 2 {
			vAssert(vAnd(err == io.EOF, vEqBytes(got, p)), "text.binary_never_checked")
		} else {
			vAssert((err == io.EOF) == valid, "text.complete_iff_valid")
			vAssert(vImplies(!valid, err == ErrInvalidUTF8), "text.invalid_reported")
			if err == io.EOF {
				vAssert(vEqBytes(got, p), "text.payload")
			}
		}
		if err != io.EOF {
			// rejected: the application skips the rest and goes on with the next message
			if rd.Discard() != nil {
				return
			}
		}
		h, err := rd.NextFrame()
		vAssert(vAnd(err == nil, byte(h.OpCode) == nextOp), "text.next_ok")
		if err != nil {
			return
		}
		got, err = vReadAllB(rd, B)
		if next == 2 {
			vAssert(err == ErrInvalidUTF8, "text.next_invalid_text_rejected")
		} else {
			vAssert(vAnd(err == io.EOF, vEqBytes(got, nextP)), "text.next_clean")
		}
		return
	}
	ms, err := ReadMessage(&src, vSide(server), nil)
	if op == 2 {
		vAssert(err == nil, "text.rm_binary_ok")
	} else {
		vAssert((err == nil) == valid, "text.rm_ok_iff_valid")
	}
	if err == nil {
		vAssert(vEqBytes(ms[len(ms)-1].Payload, p), "text.rm_payload")
		ms, err = ReadMessage(&src, vSide(server), nil)
		if next == 2 {
			vAssert(err != nil, "text.rm_next_invalid_text_rejected")
		} else {
			vAssert(vAnd(err == nil, vEqBytes(ms[len(ms)-1].Payload, nextP)), "text.rm_next_clean")
		}
	}
}
