//go:build verif

package wsutil

import (
	"io"

	"github.com/gobwas/ws"
)

// C07_reader_text: with CheckUTF8, a (possibly fragmented) text message is delivered without
// error iff the whole payload is valid UTF-8, wherever the fragment boundary / interleaved
// control frame / read boundary falls; binary is never checked; the next message starts clean.
func C07_reader_text() {
	server := vChoose("side", 2) == 0
	total := 3 + vTier()
	n := vChoose("n", total+1)
	p := vBytes("p", n)
	split := vChoose("split", n+2) // n+1 = unfragmented
	op := byte(1 + vChoose("op", 2))
	var wire []byte
	key := [4]byte{vU8("k0"), vU8("k1"), vU8("k2"), vU8("k3")}
	if split == n+1 {
		wire = vEncode(vFrame{fin: true, op: op, masked: server, key: key, payload: p})
	} else {
		wire = vEncode(vFrame{fin: false, op: op, masked: server, key: key, payload: p[:split]})
		if vChoose("ctl", 2) == 1 {
			wire = append(wire, vEncode(vFrame{fin: true, op: 9, masked: server, key: key, payload: []byte{0xff}})...)
		}
		wire = append(wire, vEncode(vFrame{fin: true, op: 0, masked: server, key: key, payload: p[split:]})...)
	}
	wire = append(wire, vEncode(vFrame{fin: true, op: 1, masked: server, key: key, payload: []byte{'o', 'k'}})...)
	valid := vUTF8Valid(p)
	src := vNewSrc(wire, vChoose("mode", 2), "chunk")
	if vChoose("api", 2) == 0 {
		B := []int{1, 16}[vChoose("B", 2)]
		rd := &Reader{Source: &src, State: vSide(server), CheckUTF8: true}
		_, err := rd.NextFrame()
		vAssert(err == nil, "text.first_ok")
		got, err := vReadAllB(rd, B)
		if op == 2 {
			vAssert(vAnd(err == io.EOF, vEqBytes(got, p)), "text.binary_never_checked")
		} else {
			vAssert((err == io.EOF) == valid, "text.complete_iff_valid")
			vAssert(vImplies(!valid, err == ErrInvalidUTF8), "text.invalid_reported")
			if err == io.EOF {
				vAssert(vEqBytes(got, p), "text.payload")
			}
		}
		if err != io.EOF {
			return
		}
		h, err := rd.NextFrame()
		vAssert(vAnd(err == nil, h.OpCode == ws.OpText), "text.next_ok")
		got, err = vReadAllB(rd, B)
		vAssert(vAnd(err == io.EOF, vEqBytes(got, []byte("ok"))), "text.next_clean")
		return
	}
	ms, err := ReadMessage(&src, vSide(server), nil)
	if op == 2 {
		vAssert(err == nil, "text.rm_binary_ok")
	} else {
		vAssert((err == nil) == valid, "text.rm_ok_iff_valid")
	}
	if err == nil {
		vAssert(vEqBytes(ms[len(ms)-1].Payload, p), "text.rm_payload")
		ms, err = ReadMessage(&src, vSide(server), nil)
		vAssert(vAnd(err == nil, vEqBytes(ms[len(ms)-1].Payload, []byte("ok"))), "text.rm_next_clean")
	}
}
