//go:build verif

package wsutil

import (
	"context"
	"net"

	"github.com/gobwas/ws"
)

// C11_debug_dialer: exactly the request and response bytes are reported, the outcome is the
// undecorated one, post-handshake bytes are preserved.
func C11_debug_dialer() {
	vRandConcrete(true)
	t := []int{0, 1, 2, 100}[vChoose("t", 4)]
	var trailing []byte
	if t <= 2 {
		trailing = vBytes("trail", t)
	} else {
		// more post-handshake bytes than a small read buffer holds: concrete filler, arbitrary ends
		trailing = make([]byte, t)
		for i := range trailing {
			trailing[i] = byte('a' + i%26)
		}
		trailing[0], trailing[t-1] = vU8("tr0"), vU8("trl")
	}
	conn := &vLazyConn{trailing: trailing, bad: vChoose("bad", 2) == 1}
	var req, resp []byte
	rbuf := []int{0, 40}[vChoose("readbuf", 2)]
	d := DebugDialer{Dialer: ws.Dialer{ReadBufferSize: rbuf, NetDial: func(ctx context.Context, network, addr string) (net.Conn, error) { return conn, nil }}}
	// together with the caller's own connection wrapper (another optional feature of the Dialer)
	wrap := vChoose("wrapconn", 2) == 1
	if wrap {
		d.Dialer.WrapConn = func(c net.Conn) net.Conn { return &vWrapConn{Conn: c} }
	}
	onReq, onResp := vChoose("onrequest", 2) == 1, vChoose("onresponse", 2) == 1
	if onReq {
		d.OnRequest = func(p []byte) { req = append(req, p...) }
	}
	if onResp {
		d.OnResponse = func(p []byte) { resp = append(resp, p...) }
	}
	c, br, _, err := d.Dial(context.Background(), "ws://example.com/path")
	vAssert((err == nil) == !conn.bad, "debug.outcome_unchanged")
	if onReq {
		vAssert(vEqBytes(req, conn.wrote), "debug.request_bytes_reported")
	}
	head := conn.answer[:len(conn.answer)-t]
	if onResp {
		vAssert(vEqBytes(resp, head), "debug.response_head_reported")
	}
	if err != nil {
		vAssert(conn.closed, "debug.conn_closed_on_error")
		return
	}
	if wrap {
		// as with the plain Dialer, the connection handed back is the caller's wrapped one
		_, isWrapped := c.(*vWrapConn)
		vAssert(isWrapped, "debug.returns_the_wrapped_connection")
	}
	var got []byte
	if br != nil {
		n := br.Buffered()
		p, _ := br.Peek(n)
		got = append(got, p...)
	}
	buf := make([]byte, 16)
	if c != nil {
		for i := 0; i < 12; i++ {
			n, e := c.Read(buf)
			got = append(got, buf[:n]...)
			if e != nil {
				break
			}
		}
	}
	vAssert(vEqBytes(got, trailing), "debug.trailing_bytes_preserved")
}

// vWrapConn: a caller-side connection wrapper (stands for encryption, accounting, ...).
type vWrapConn struct {
	net.Conn
}
