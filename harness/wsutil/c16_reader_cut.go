//go:build verif

package wsutil

import (
	"io"

	"github.com/gobwas/ws"
)

// C16_reader_cut: a stream that ends (EOF) or fails at ANY byte offset never yields a
// complete-looking message, a clean end of stream inside a message, or a shortened control
// payload.
func C16_reader_cut() {
	server := vChoose("side", 2) == 0
	wire, spans := vGenCut(server)
	item := spans[:len(spans)-1] // frames of the first item
	itemEnd := item[len(item)-1].end
	cut := vChoose("cut", itemEnd) // 0 .. itemEnd-1: the first item is always incomplete
	kind := vChoose("kind", 4)     // EOF / error, reported separately or together with the last bytes
	useErr := kind%2 == 1
	withData := kind >= 2
	one := vChoose("chunk", 2) == 1
	// classify the cut position
	inPayloadOrBetween := false // strictly after a complete header of the item, or between its frames
	for _, sp := range item {
		if cut >= sp.hdrEnd && cut < sp.end {
			inPayloadOrBetween = true
		}
		if cut == sp.end { // a frame boundary inside the item (not its end)
			inPayloadOrBetween = true
		}
	}
	if cut == 0 {
		inPayloadOrBetween = false
	}
	api := vChoose("api", 5)
	switch api {
	case 0: // Reader + read until EOF
		src := &vCutSrc{data: wire, cut: cut, useErr: useErr, one: one, withData: withData}
		var handed [][]byte
		rd := &Reader{Source: src, State: vSide(server), CheckUTF8: true}
		rd.OnIntermediate = func(h ws.Header, r io.Reader) error {
			p, err := vReadAllB(r, 16)
			if err == io.EOF {
				handed = append(handed, p)
				vAssert(int64(len(p)) == h.Length, "cut.intermediate_handler_gets_whole_payload_or_error")
				return nil
			}
			return err
		}
		_, err := rd.NextFrame()
		if err == nil {
			_, err = vReadAllB(rd, 16)
			vAssert(err != io.EOF, "cut.read_until_eof_never_completes")
			vAssert(err != nil, "cut.read_reports_error")
		} else if cut > 0 {
			vAssert(true, "cut.header_cut_is_error")
		}
		if useErr && err != nil && cut > 0 {
			// a transport error must not be turned into a clean EOF
			vAssert(err != io.EOF, "cut.transport_error_not_eof")
		}
	case 4: // frame by frame: NextFrame, read the frame's bytes through the Reader, NextFrame again
		src := &vCutSrc{data: wire, cut: cut, useErr: useErr, one: one, withData: withData}
		rd := &Reader{Source: src, State: vSide(server)}
		var err error
		for i := 0; i < 4 && err == nil; i++ {
			_, err = rd.NextFrame()
			if err == nil {
				_, err = vReadAllB(rd, 16)
				if err == io.EOF && rd.State.Fragmented() {
					err = nil // end of a non-final fragment's data reached through Read: go on
				}
			}
		}
		vAssert(err != nil, "cut.frame_loop_fails")
		if inPayloadOrBetween {
			vAssert(err != io.EOF, "cut.frame_loop_not_clean_eof")
		}
	case 1: // Discard
		src := &vCutSrc{data: wire, cut: cut, useErr: useErr, one: one, withData: withData}
		rd := &Reader{Source: src, State: vSide(server)}
		_, err := rd.NextFrame()
		if err == nil {
			derr := rd.Discard()
			vAssert(derr != nil, "cut.discard_of_cut_message_fails")
			if inPayloadOrBetween {
				vAssert(derr != io.EOF, "cut.discard_not_clean_eof")
			}
		}
	case 2: // ReadMessage
		src := &vCutSrc{data: wire, cut: cut, useErr: useErr, one: one, withData: withData}
		ms, err := ReadMessage(src, vSide(server), nil)
		vAssert(err != nil, "cut.readmessage_fails")
		if inPayloadOrBetween {
			vAssert(err != io.EOF, "cut.readmessage_not_clean_eof")
		}
		for _, m := range ms {
			_ = m
		}
		// no (control) message is returned shortened
		for i, m := range ms {
			if i < len(item) && item[1].interm && len(item) == 3 {
				vAssert(len(m.Payload) == item[1].end-item[1].hdrEnd, "cut.readmessage_no_shortened_control")
			}
		}
	case 3: // readData
		rw := &vCutRW{vCutSrc: vCutSrc{data: wire, cut: cut, useErr: useErr, one: one, withData: withData}}
		// (want mask: both kinds, or only the other kind so that the cut message is skipped)
		want := []ws.OpCode{ws.OpText | ws.OpBinary, ws.OpText, ws.OpBinary}[vChoose("want", 3)]
		p, _, err := readData(rw, vSide(server), want)
		vAssert(err != nil, "cut.readdata_fails")
		_ = p // bytes returned together with a non-nil error are not a success report (not asserted)
		if inPayloadOrBetween {
			vAssert(err != io.EOF, "cut.readdata_not_clean_eof")
		}
		// a pong is only ever sent for a completely received ping
		fs, ok := vParseFrames(rw.out)
		if ok {
			for _, f := range fs {
				if f.op == 10 {
					for _, sp := range item {
						if sp.control {
							vAssert(len(f.payload) == sp.end-sp.hdrEnd, "cut.no_pong_for_shortened_ping")
						}
					}
				}
			}
		}
	}
}
