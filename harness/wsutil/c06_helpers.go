//go:build verif

package wsutil

import (
	"github.com/gobwas/ws"
)

// C06_helpers: WriteMessage and friends emit exactly one final frame with the payload.
func C06_helpers() {
	server := vChoose("side", 2) == 0
	op := ws.OpCode([]byte{1, 2, 9}[vChoose("op", 3)])
	p := vBytes("p", []int{0, 1, 5, 126}[vChoose("plen", 4)])
	keep := append([]byte{}, p...)
	dst := &vDst{failAt: -1}
	vAssert(WriteMessage(dst, vSide(server), op, p) == nil, "helpers.ok")
	vAssert(vEqBytes(p, keep), "helpers.caller_intact")
	fs, ok := vParseFrames(dst.all)
	vAssert(vAnd(ok, len(fs) == 1), "helpers.one_frame")
	if ok && len(fs) == 1 {
		f := fs[0]
		vAssert(vAnd(f.fin, vAnd(f.op == byte(op), vAnd(f.rsv == 0, f.masked == !server))), "helpers.header")
		vAssert(vEqBytes(f.payload, keep), "helpers.payload")
	}
}
