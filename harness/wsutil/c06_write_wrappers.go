//go:build verif

package wsutil

import (
	"github.com/gobwas/ws"
)

// C06_write_wrappers: every exported Write* helper emits one final frame with the right opcode,
// masked exactly on the client side; HandleClient/ServerControlMessage pick the right side.
func C06_write_wrappers() {
	p := vBytes("p", 1+vChoose("n", 3))
	dst := &vDst{failAt: -1}
	which := vChoose("fn", 6)
	var err error
	wantOp, client := byte(0), false
	switch which {
	case 0:
		err, wantOp = WriteServerText(dst, p), 1
	case 1:
		err, wantOp = WriteServerBinary(dst, p), 2
	case 2:
		err, wantOp = WriteServerMessage(dst, ws.OpPing, p), 9
	case 3:
		err, wantOp, client = WriteClientText(dst, p), 1, true
	case 4:
		err, wantOp, client = WriteClientBinary(dst, p), 2, true
	case 5:
		err, wantOp, client = WriteClientMessage(dst, ws.OpPong, p), 10, true
	}
	vAssert(err == nil, "wrap.write_ok")
	fs, ok := vParseFrames(dst.all)
	vAssert(vAnd(ok, len(fs) == 1), "wrap.one_frame")
	if ok && len(fs) == 1 {
		f := fs[0]
		vAssert(vAnd(f.fin, vAnd(f.op == wantOp, vAnd(f.rsv == 0, f.masked == client))), "wrap.header")
		vAssert(vEqBytes(f.payload, p), "wrap.payload")
	}
	// control message helpers: a ping is answered as the named side must
	d2 := &vDst{failAt: -1}
	if vChoose("ctl", 2) == 0 {
		err = HandleClientControlMessage(d2, Message{OpCode: ws.OpPing, Payload: p})
		client = false // a server answers its client: unmasked
	} else {
		err = HandleServerControlMessage(d2, Message{OpCode: ws.OpPing, Payload: p})
		client = true
	}
	vAssert(err == nil, "wrap.control_ok")
	fs, ok = vParseFrames(d2.all)
	vAssert(vAnd(ok, len(fs) == 1), "wrap.control_one_frame")
	if ok && len(fs) == 1 {
		vAssert(vAnd(fs[0].op == 10, vAnd(fs[0].masked == client, vEqBytes(fs[0].payload, p))), "wrap.control_pong")
	}
}
