//go:build verif

package wsutil

import (
	"github.com/gobwas/ws"
)

// C15_control_handler: any checked control header with any short payload.
func C15_control_handler() {
	server := vChoose("side", 2) == 0
	n := vChoose("n", 5)
	payload := vBytes("p", n)
	h := ws.Header{Fin: true, OpCode: ws.OpCode(vU8("op")), Length: int64(n), Masked: server}
	h.Mask = [4]byte{vU8("k0"), vU8("k1"), vU8("k2"), vU8("k3")}
	vAssume(h.OpCode <= 15)
	if ws.CheckHeader(h, vSide(server)) != nil {
		return
	}
	dst := &vDst{failAt: -1}
	avail := vChoose("avail", n+1) // the source may deliver fewer bytes than announced
	src := vNewSrc(payload[:avail], 0, "chunk")
	ControlHandler{Src: &src, Dst: dst, State: vSide(server), DisableSrcCiphering: vChoose("nocipher", 2) == 1}.Handle(h)
	vAssert(true, "control.returned")
}
