//go:build verif

package wsutil

import (
	"github.com/gobwas/ws"
)

// C17_caller_bytes: the write-side APIs documented as non-mutating leave the caller's slice
// bit-for-bit intact (client side = masking involved).
func C17_caller_bytes() {
	n := []int{0, 1, 5, 126, 128, 130, 1024, 4097, 65537, 65539}[vChoose("n", 10)] // incl. capacities that are pool size classes
	var p []byte
	if n <= 130 {
		p = vBytes("p", n)
	} else {
		// above the largest pooled size class: concrete filler with symbolic ends
		p = make([]byte, n)
		for i := range p {
			p[i] = byte(i)
		}
		p[0], p[n-1], p[n-2] = vU8("p0"), vU8("pl"), vU8("pk")
	}
	keep := append([]byte{}, p...)
	dst := &vDst{failAt: -1}
	// the client state as applications hold it: alone, or with the extension / fragmentation
	// flags that come with negotiated extensions
	st := ws.StateClientSide | []ws.State{0, ws.StateExtended, ws.StateFragmented | ws.StateExtended}[vChoose("stateflags", 3)]
	api := vChoose("api", 6)
	pre := 0
	var ckey [4]byte
	switch api {
	case 0:
		vAssert(WriteClientMessage(dst, ws.OpBinary, p) == nil, "caller.writemessage_ok")
	case 1:
		w := NewWriterSize(dst, st, ws.OpBinary, 4)
		w.WriteThrough(p)
	case 2:
		w := NewWriterSize(dst, st, ws.OpBinary, 4)
		w.Write(p)
		w.Flush()
	case 4: // server-side message write: nothing to mask, the caller's slice goes out as it is
		vAssert(WriteServerMessage(dst, ws.OpBinary, p) == nil, "caller.writeservermessage_ok")
	case 5:
		w := NewWriterSize(dst, ws.StateServerSide|(st&^ws.StateClientSide), ws.OpBinary, 4)
		w.Write(p)
		w.Flush()
	case 3:
		ckey = [4]byte{vU8("k0"), vU8("k1"), vU8("k2"), vU8("k3")}
		cw := NewCipherWriter(dst, ckey)
		// (the writer is in mid-stream: 0..3 bytes went through it before the caller's slice)
		pre = vChoose("earlier", 4)
		cw.Write(make([]byte, pre))
		cw.Write(p)
	}
	vAssert(vEqBytes(p, keep), "caller.bytes_intact")
	// what reached the destination is the caller's data (other goroutines recycle the pools during
	// every destination write: a buffer released too early does not survive that)
	if api == 3 {
		ok := len(dst.all) == pre+n
		for i := 0; ok && i < n; i++ {
			if n <= 130 || i == 0 || i >= n-2 {
				ok = vConcrete(vIte(dst.all[pre+i]^ckey[(pre+i)%4] == keep[i], 1, 0)) == 1
			}
		}
		vAssert(ok, "caller.destination_got_the_data")
	} else {
		fs, ok := vParseFrames(dst.all)
		var got []byte
		for _, f := range fs {
			got = append(got, f.payload...)
		}
		vAssert(vAnd(ok, len(got) == n), "caller.destination_got_whole_frames")
		if ok && len(got) == n {
			if n <= 130 {
				vAssert(vEqBytes(got, keep), "caller.destination_got_the_data")
			} else {
				vAssert(vAnd(got[0] == keep[0], vAnd(got[n-1] == keep[n-1], vAnd(got[n-2] == keep[n-2], got[n/2] == keep[n/2]))), "caller.destination_got_the_data")
			}
		}
	}
	// ... and stays the caller's: later users of the library's pools do not get to write into it
	vPoisonPools()
	vAssert(vEqBytes(p, keep), "caller.bytes_intact_after_pool_reuse")
	// what reached the destination does not change when the caller reuses its slice
	sent := append([]byte{}, dst.all...)
	for i := range p {
		p[i] = 0xEE
	}
	vPoisonPools()
	vAssert(vEqBytes(dst.all, sent), "caller.destination_bytes_stable")
}
