//go:build verif

package wsutil

import (
	"bufio"
	"bytes"
	"crypto/sha1"
	"encoding/base64"
	"io"
	"net"
	"net/http"
	"time"
)

// vScriptConn is a net.Conn that records writes and serves a scripted answer.
type vScriptConn struct {
	wrote  []byte
	answer []byte
	pos    int
	closed bool
}

func (c *vScriptConn) Read(p []byte) (int, error) {
	if c.pos >= len(c.answer) {
		return 0, io.EOF
	}
	n := copy(p, c.answer[c.pos:])
	c.pos += n
	return n, nil
}
func (c *vScriptConn) Write(p []byte) (int, error) {
	c.wrote = append(c.wrote, p...)
	return len(p), nil
}
func (c *vScriptConn) Close() error                       { c.closed = true; return nil }
func (c *vScriptConn) LocalAddr() net.Addr                { return vStubAddr{} }
func (c *vScriptConn) RemoteAddr() net.Addr               { return vStubAddr{} }
func (c *vScriptConn) SetDeadline(t time.Time) error      { return nil }
func (c *vScriptConn) SetReadDeadline(t time.Time) error  { return nil }
func (c *vScriptConn) SetWriteDeadline(t time.Time) error { return nil }

// ---- models of the two net/http parsers used by the debug wrappers (the real ones cannot be
// encoded; natively the real ones run, and the replayed witnesses compare the two) ----

func vModelHead(br *bufio.Reader, prefix string) error {
	first := true
	for {
		line, err := br.ReadSlice('\n')
		if err != nil {
			return io.ErrUnexpectedEOF
		}
		if first {
			if len(line) < len(prefix) || string(line[:len(prefix)]) != prefix {
				return io.ErrUnexpectedEOF
			}
			first = false
			continue
		}
		if len(line) <= 2 {
			return nil
		}
	}
}

// The response model reads the head, takes the status code and a declared Content-Length from
// it and hands out a body of at most that many of the bytes that follow (to the end of the stream
// when no length is declared) -- what net/http does for responses that are not chunked.
func vModel_net_http_ReadResponse(br *bufio.Reader, req *http.Request) (*http.Response, error) {
	status, cl := 0, int64(-1)
	first := true
	for {
		line, err := br.ReadSlice('\n')
		if err != nil {
			return nil, io.ErrUnexpectedEOF
		}
		if first {
			if len(line) < 12 || string(line[:5]) != "HTTP/" {
				return nil, io.ErrUnexpectedEOF
			}
			for _, c := range line[9:12] {
				status = status*10 + int(c-'0')
			}
			first = false
			continue
		}
		if len(line) <= 2 {
			break
		}
		if len(line) > 16 && string(line[:16]) == "Content-Length: " {
			cl = 0
			for _, c := range line[16:] {
				if c >= '0' && c <= '9' {
					cl = cl*10 + int64(c-'0')
				}
			}
		}
	}
	resp := &http.Response{StatusCode: status, ContentLength: cl, Body: http.NoBody}
	if status/100 == 1 || status == 204 || status == 304 {
		resp.ContentLength = 0
		return resp, nil
	}
	if cl < 0 {
		resp.Body = vBody{br}
	} else if cl > 0 {
		resp.Body = vBody{io.LimitReader(br, cl)}
	}
	return resp, nil
}

type vBody struct{ io.Reader }

func (vBody) Close() error { return nil }

func vModel_net_http_ReadRequest(br *bufio.Reader) (*http.Request, error) {
	if err := vModelHead(br, "GET "); err != nil {
		return nil, err
	}
	return &http.Request{Method: "GET", Body: http.NoBody}, nil
}

func vAcceptFor(wrote []byte) []byte {
	i := bytes.Index(wrote, []byte("Sec-WebSocket-Key: "))
	if i < 0 || len(wrote) < i+19+24 {
		return nil
	}
	key := wrote[i+19 : i+19+24]
	h := sha1.Sum(append(append([]byte{}, key...), "258EAFA5-E914-47DA-95CA-C5AB0DC85B11"...))
	out := make([]byte, 28)
	base64.StdEncoding.Encode(out, h[:])
	return out
}

type vLazyConn struct {
	vScriptConn
	trailing []byte
	started  bool
	bad      bool
}

func (c *vLazyConn) Read(p []byte) (int, error) {
	if !c.started {
		c.started = true
		status := "101 Switching Protocols"
		if c.bad {
			status = "400 Bad Request"
		}
		c.answer = []byte("HTTP/1.1 " + status + "\r\nUpgrade: websocket\r\nConnection: Upgrade\r\nSec-WebSocket-Accept: " + string(vAcceptFor(c.wrote)) + "\r\nContent-Length: 0\r\n\r\n")
		c.answer = append(c.answer, c.trailing...)
	}
	return c.vScriptConn.Read(p)
}

type vPlainRW struct {
	in  []byte
	pos int
	out []byte
}

func (c *vPlainRW) Read(p []byte) (int, error) {
	if c.pos >= len(c.in) {
		return 0, io.EOF
	}
	n := copy(p, c.in[c.pos:])
	c.pos += n
	return n, nil
}
func (c *vPlainRW) Write(p []byte) (int, error) { c.out = append(c.out, p...); return len(p), nil }
