//go:build verif

package wsutil

import (
	"bufio"
	"bytes"
	"context"
	"crypto/sha1"
	"encoding/base64"
	"io"
	"net"
	"net/http"
	"time"

	"github.com/gobwas/ws"
)

// vScriptConn is a net.Conn that records writes and serves a scripted answer.
type vScriptConn struct {
	wrote  []byte
	answer []byte
	pos    int
	closed bool
}

func (c *vScriptConn) Read(p []byte) (int, error) {
	if c.pos >= len(c.answer) {
		return 0, io.EOF
	}
	n := copy(p, c.answer[c.pos:])
	c.pos += n
	return n, nil
}
func (c *vScriptConn) Write(p []byte) (int, error) {
	c.wrote = append(c.wrote, p...)
	return len(p), nil
}
func (c *vScriptConn) Close() error                       { c.closed = true; return nil }
func (c *vScriptConn) LocalAddr() net.Addr                { return vStubAddr{} }
func (c *vScriptConn) RemoteAddr() net.Addr               { return vStubAddr{} }
func (c *vScriptConn) SetDeadline(t time.Time) error      { return nil }
func (c *vScriptConn) SetReadDeadline(t time.Time) error  { return nil }
func (c *vScriptConn) SetWriteDeadline(t time.Time) error { return nil }

// C11_debug_dialer_failed_dial: the debugging dialer reports exactly the bytes exchanged and
// does not change the outcome — also when nothing was exchanged because the dial failed.
func C11_debug_dialer_failed_dial() {
	var req, resp []byte
	gotReq, gotResp := false, false
	d := DebugDialer{
		Dialer: ws.Dialer{NetDial: func(ctx context.Context, network, addr string) (net.Conn, error) {
			return nil, vErrSrc
		}},
	}
	if vChoose("onrequest", 2) == 1 {
		d.OnRequest = func(p []byte) { gotReq = true; req = append(req, p...) }
	}
	if vChoose("onresponse", 2) == 1 {
		d.OnResponse = func(p []byte) { gotResp = true; resp = append(resp, p...) }
	}
	conn, br, _, err := d.Dial(context.Background(), "ws://example.com/path")
	vAssert(err == vErrSrc, "debug.outcome_is_the_dial_error")
	vAssert(vAnd(conn == nil, br == nil), "debug.no_conn_on_failed_dial")
	vAssert(vAnd(len(req) == 0, len(resp) == 0), "debug.nothing_exchanged_nothing_reported")
	_, _ = gotReq, gotResp
}

// ---- models of the two net/http parsers used by the debug wrappers (the real ones cannot be
// encoded; natively the real ones run, and the replayed witnesses compare the two) ----

func vModelHead(br *bufio.Reader, prefix string) error {
	first := true
	for {
		line, err := br.ReadSlice('\n')
		if err != nil {
			return io.ErrUnexpectedEOF
		}
		if first {
			if len(line) < len(prefix) || string(line[:len(prefix)]) != prefix {
				return io.ErrUnexpectedEOF
			}
			first = false
			continue
		}
		if len(line) <= 2 {
			return nil
		}
	}
}

func vModel_net_http_ReadResponse(br *bufio.Reader, req *http.Request) (*http.Response, error) {
	if err := vModelHead(br, "HTTP/"); err != nil {
		return nil, err
	}
	return &http.Response{StatusCode: 101, Body: http.NoBody}, nil
}

func vModel_net_http_ReadRequest(br *bufio.Reader) (*http.Request, error) {
	if err := vModelHead(br, "GET "); err != nil {
		return nil, err
	}
	return &http.Request{Method: "GET", Body: http.NoBody}, nil
}

func vAcceptFor(wrote []byte) []byte {
	i := bytes.Index(wrote, []byte("Sec-WebSocket-Key: "))
	if i < 0 || len(wrote) < i+19+24 {
		return nil
	}
	key := wrote[i+19 : i+19+24]
	h := sha1.Sum(append(append([]byte{}, key...), "258EAFA5-E914-47DA-95CA-C5AB0DC85B11"...))
	out := make([]byte, 28)
	base64.StdEncoding.Encode(out, h[:])
	return out
}

type vLazyConn struct {
	vScriptConn
	trailing []byte
	started  bool
	bad      bool
}

func (c *vLazyConn) Read(p []byte) (int, error) {
	if !c.started {
		c.started = true
		status := "101 Switching Protocols"
		if c.bad {
			status = "400 Bad Request"
		}
		c.answer = []byte("HTTP/1.1 " + status + "\r\nUpgrade: websocket\r\nConnection: Upgrade\r\nSec-WebSocket-Accept: " + string(vAcceptFor(c.wrote)) + "\r\nContent-Length: 0\r\n\r\n")
		c.answer = append(c.answer, c.trailing...)
	}
	return c.vScriptConn.Read(p)
}

// C11_debug_dialer: exactly the request and response bytes are reported, the outcome is the
// undecorated one, post-handshake bytes are preserved.
func C11_debug_dialer() {
	vRandConcrete(true)
	t := vChoose("t", 3)
	trailing := vBytes("trail", t)
	conn := &vLazyConn{trailing: trailing, bad: vChoose("bad", 2) == 1}
	var req, resp []byte
	d := DebugDialer{Dialer: ws.Dialer{NetDial: func(ctx context.Context, network, addr string) (net.Conn, error) { return conn, nil }}}
	onReq, onResp := vChoose("onrequest", 2) == 1, vChoose("onresponse", 2) == 1
	if onReq {
		d.OnRequest = func(p []byte) { req = append(req, p...) }
	}
	if onResp {
		d.OnResponse = func(p []byte) { resp = append(resp, p...) }
	}
	c, br, _, err := d.Dial(context.Background(), "ws://example.com/path")
	vAssert((err == nil) == !conn.bad, "debug.outcome_unchanged")
	if onReq {
		vAssert(vEqBytes(req, conn.wrote), "debug.request_bytes_reported")
	}
	head := conn.answer[:len(conn.answer)-t]
	if onResp {
		vAssert(vEqBytes(resp, head), "debug.response_head_reported")
	}
	if err != nil {
		vAssert(conn.closed, "debug.conn_closed_on_error")
		return
	}
	var got []byte
	if br != nil {
		n := br.Buffered()
		p, _ := br.Peek(n)
		got = append(got, p...)
	}
	buf := make([]byte, 8)
	if c != nil {
		for i := 0; i < 4; i++ {
			n, e := c.Read(buf)
			got = append(got, buf[:n]...)
			if e != nil {
				break
			}
		}
	}
	vAssert(vEqBytes(got, trailing), "debug.trailing_bytes_preserved")
}

type vPlainRW struct {
	in  []byte
	pos int
	out []byte
}

func (c *vPlainRW) Read(p []byte) (int, error) {
	if c.pos >= len(c.in) {
		return 0, io.EOF
	}
	n := copy(p, c.in[c.pos:])
	c.pos += n
	return n, nil
}
func (c *vPlainRW) Write(p []byte) (int, error) { c.out = append(c.out, p...); return len(p), nil }

// C11_debug_upgrader: same for the upgrader wrapper.
func C11_debug_upgrader() {
	good := vChoose("good", 2) == 1
	reqBytes := []byte("GET /x HTTP/1.1\r\nHost: h\r\nUpgrade: websocket\r\nConnection: Upgrade\r\nSec-WebSocket-Version: 13\r\nSec-WebSocket-Key: dGhlIHNhbXBsZSBub25jZQ==\r\n\r\n")
	if !good {
		reqBytes = []byte("GET /x HTTP/1.1\r\nHost: h\r\nUpgrade: websocket\r\nConnection: close\r\nSec-WebSocket-Version: 13\r\nSec-WebSocket-Key: dGhlIHNhbXBsZSBub25jZQ==\r\n\r\n")
	}
	t := vChoose("t", 3)
	trailing := vBytes("trail", t)
	conn := &vPlainRW{in: append(append([]byte{}, reqBytes...), trailing...)}
	ref := &vPlainRW{in: conn.in}
	var u0 ws.Upgrader
	_, err0 := u0.Upgrade(ref)
	var req, resp []byte
	d := DebugUpgrader{}
	onReq, onResp := vChoose("onrequest", 2) == 1, vChoose("onresponse", 2) == 1
	if onReq {
		d.OnRequest = func(p []byte) { req = append(req, p...) }
	}
	if onResp {
		d.OnResponse = func(p []byte) { resp = append(resp, p...) }
	}
	_, err := d.Upgrade(conn)
	vAssert((err == nil) == (err0 == nil), "debug.upgrader_outcome_unchanged")
	vAssert((err == nil) == good, "debug.upgrader_outcome")
	vAssert(vEqBytes(conn.out, ref.out), "debug.upgrader_same_bytes_written")
	if onResp {
		vAssert(vEqBytes(resp, conn.out), "debug.upgrader_response_reported")
	}
	if onReq {
		// what is reported starts with the request head (the parser may have prefetched more)
		vAssert(vAnd(len(req) >= len(reqBytes), vEqBytes(req[:len(reqBytes)], reqBytes)), "debug.upgrader_request_reported")
	}
}
