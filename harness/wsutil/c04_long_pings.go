//go:build verif

package wsutil

import (
	"github.com/gobwas/ws"
)

// C04_long_pings: control frames of the largest legal sizes (payloads of 121..125 bytes, first
// and last byte symbolic) before a data message and between its fragments, both sides, through
// the ReadData helpers: the message is delivered exactly, each ping is answered with its payload.
func C04_long_pings() {
	server := vChoose("side", 2) == 0
	n := []int{121, 122, 124, 125}[vChoose("len", 4)]
	ping := make([]byte, n)
	for i := range ping {
		ping[i] = byte('a' + i%26)
	}
	ping[0], ping[n-1] = vU8("p0"), vU8("pz")
	key := [4]byte{vU8("k0"), vU8("k1"), vU8("k2"), vU8("k3")}
	op := byte([]int{9, 10}[vChoose("ctl", 2)])
	d0, d1 := vU8("d0"), vU8("d1")
	var wire []byte
	between := vChoose("where", 2) == 1
	if !between {
		wire = vEncode(vFrame{fin: true, op: op, masked: server, key: key, payload: ping})
	}
	wire = append(wire, vEncode(vFrame{fin: false, op: 2, masked: server, key: key, payload: []byte{d0}})...)
	if between {
		wire = append(wire, vEncode(vFrame{fin: true, op: op, masked: server, key: key, payload: ping})...)
	}
	wire = append(wire, vEncode(vFrame{fin: true, op: 0, masked: server, key: key, payload: []byte{d1}})...)
	rw := &vRW{vSrc: vNewSrc(wire, []int{0, 5}[vChoose("mode", 2)], "chunk")}
	data, gotOp, err := readData(rw, vSide(server), ws.OpBinary)
	vAssert(err == nil, "longping.message_delivered")
	if err != nil {
		return
	}
	vAssert(vAnd(gotOp == ws.OpBinary, vEqBytes(data, []byte{d0, d1})), "longping.payload")
	fs, ok := vParseFrames(rw.out)
	vAssert(ok, "longping.replies_whole_frames")
	if !ok {
		return
	}
	if op == 9 {
		vAssert(len(fs) == 1, "longping.one_pong")
		if len(fs) == 1 {
			vAssert(vAnd(fs[0].op == 10, vAnd(fs[0].masked == !server, vEqBytes(fs[0].payload, ping))), "longping.pong_same_payload")
		}
	} else {
		vAssert(len(fs) == 0, "longping.pong_unanswered")
	}
}
