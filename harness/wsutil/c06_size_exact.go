//go:build verif

package wsutil

// C06_size_exact: for every requested size n in [1, 2^40] on either side the header space
// reserved for a buffer of n+headerSize(n) bytes is exactly headerSize(n), i.e.
// NewWriterSize(..., n).Size() == n across the 125/126 and 65535/65536 thresholds.
func C06_size_exact() {
	n := vInt("n")
	vAssume(vAnd(n >= 1, n <= 1<<40))
	st := vSide(vBool("server"))
	hs := headerSize(st, n)
	want := 2
	if n > 125 {
		want = 4
	}
	if n > 65535 {
		want = 10
	}
	if st.ClientSide() {
		want += 4
	}
	vAssert(hs == want, "size.headersize_rfc")
	vAssert(reserve(st, n+hs) == hs, "size.reserve_matches_headersize")
	// monotone: a bigger raw buffer never reserves less
	m := vInt("m")
	vAssume(vAnd(m >= n, m <= 1<<41))
	vAssert(reserve(st, m) >= reserve(st, n), "size.reserve_monotone")
	// header space always suffices for any payload that fits behind it
	raw := vInt("raw")
	vAssume(vAnd(raw >= 3, raw <= 1<<40))
	off := reserve(st, raw)
	vAssume(raw > off)
	pl := vInt("pl")
	vAssume(vAnd(pl >= 0, pl <= raw-off))
	vAssert(headerSize(st, pl) <= off, "size.header_fits_reserved_space")
}
