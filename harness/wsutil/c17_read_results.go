//go:build verif

package wsutil

import (
	"github.com/gobwas/ws"
)

// C17_read_results: close reasons and message payloads returned by the helpers stay intact
// after the pooled buffers have been recycled with other content.
func C17_read_results() {
	server := vChoose("side", 2) == 0
	key := [4]byte{vU8("k0"), vU8("k1"), vU8("k2"), vU8("k3")}
	switch vChoose("what", 4) {
	case 0: // ClosedError.Reason from ControlHandler
		reason := vBytes("reason", []int{3, 70, 123}[vChoose("rlen", 3)])
		for _, c := range reason {
			vAssume(c < 0x80)
		}
		payload := append([]byte{0x03, 0xE8}, reason...)
		wire := vEncode(vFrame{fin: true, op: 8, masked: server, key: key, payload: payload})
		rw := &vRW{vSrc: vNewSrc(wire, 0, "chunk")}
		_, _, err := readData(rw, vSide(server), ws.OpText)
		vPoisonPools()
		ce, ok := err.(ClosedError)
		vAssert(ok, "alias.closed_error")
		if !ok {
			return
		}
		vAssert(vEqBytes([]byte(ce.Reason), reason), "alias.reason_survives_pool_reuse")
	case 1: // ReadMessage payloads (data and intermediate control)
		// sizes on both sides of the byte pool's smallest class (128): small buffers are plain
		// allocations, larger ones are recycled
		p := vBytes("p", []int{3, 130}[vChoose("plen", 2)])
		q := vBytes("q", []int{2, 65, 125}[vChoose("qlen", 3)])
		wire := vEncode(vFrame{fin: false, op: 2, masked: server, key: key, payload: p})
		wire = append(wire, vEncode(vFrame{fin: true, op: 9, masked: server, key: key, payload: q})...)
		wire = append(wire, vEncode(vFrame{fin: true, op: 0, masked: server, key: key, payload: nil})...)
		src := vNewSrc(wire, 0, "chunk")
		ms, err := ReadMessage(&src, vSide(server), nil)
		vPoisonPools()
		vAssert(vAnd(err == nil, len(ms) == 2), "alias.readmessage_ok")
		if err != nil || len(ms) != 2 {
			return
		}
		vAssert(vAnd(vEqBytes(ms[0].Payload, q), vEqBytes(ms[1].Payload, p)), "alias.messages_survive_pool_reuse")
	case 3: // two consecutive ReadMessage calls appending to the same slice: the first payload is
		// not disturbed by reading the second message (nor by the pools being recycled)
		p1 := vBytes("p1", []int{2, 130}[vChoose("p1len", 2)])
		p2 := vBytes("p2", []int{3, 131}[vChoose("p2len", 2)])
		wire := vEncode(vFrame{fin: true, op: 2, masked: server, key: key, payload: p1})
		wire = append(wire, vEncode(vFrame{fin: false, op: 2, masked: server, key: key, payload: p2[:1]})...)
		wire = append(wire, vEncode(vFrame{fin: true, op: 0, masked: server, key: key, payload: p2[1:]})...)
		src := vNewSrc(wire, 0, "chunk")
		ms, err := ReadMessage(&src, vSide(server), nil)
		vAssert(vAnd(err == nil, len(ms) == 1), "alias.first_message_ok")
		if err != nil || len(ms) != 1 {
			return
		}
		first := ms[0].Payload
		ms, err = ReadMessage(&src, vSide(server), ms)
		vPoisonPools()
		vAssert(vAnd(err == nil, len(ms) == 2), "alias.second_message_ok")
		if err != nil || len(ms) != 2 {
			return
		}
		vAssert(vAnd(vEqBytes(first, p1), vEqBytes(ms[0].Payload, p1)), "alias.first_message_survives_second_read")
		vAssert(vEqBytes(ms[1].Payload, p2), "alias.second_message_intact")
	case 2: // readData payload + a ping answered on the way (pooled pong buffer)
		p := vBytes("p", []int{3, 130}[vChoose("plen", 2)])
		for _, c := range p {
			vAssume(c < 0x80)
		}
		wire := vEncode(vFrame{fin: true, op: 9, masked: server, key: key, payload: append([]byte("ping"), make([]byte, []int{0, 96}[vChoose("pinglen", 2)])...)})
		wire = append(wire, vEncode(vFrame{fin: true, op: 1, masked: server, key: key, payload: p})...)
		rw := &vRW{vSrc: vNewSrc(wire, 0, "chunk")}
		got, _, err := readData(rw, vSide(server), ws.OpText)
		vPoisonPools()
		vAssert(err == nil, "alias.readdata_ok")
		vAssert(vEqBytes(got, p), "alias.readdata_survives_pool_reuse")
	}
}
