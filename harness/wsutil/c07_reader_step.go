//go:build verif

package wsutil

// C07_reader_step: UTF8Reader.Read from an arbitrary DFA state over n<=4 arbitrary bytes.
func C07_reader_step() {
	s := vU32("state")
	vAssume(vAnd(vDFAMap(s) != 99, s != utf8Reject))
	maxN := 3 + vTier()
	n := vChoose("n", maxN+1)
	data := vBytes("d", n)
	src := vNewSrc(data, 0, "chunk")
	u := &UTF8Reader{Source: &src, state: s, codep: vU32("codep"), accepted: int(vU8("stale"))}
	buf := make([]byte, 8)
	got, err := u.Read(buf)
	// reference run
	rs := vDFAMap(s)
	rejected := false
	acc := uint64(0)
	for i := 0; i < n; i++ {
		rs = vUTF8Step(rs, data[i])
		rejected = vOr(rejected, rs == 8)
		acc = vIte(vAnd(!rejected, rs == 0), uint64(i+1), acc)
	}
	vAssert((err == ErrInvalidUTF8) == rejected, "ustep.invalid_iff_reject")
	if err == ErrInvalidUTF8 {
		vAssert(uint64(got) == acc, "ustep.returns_last_boundary")
		vAssert(!u.Valid(), "ustep.not_valid_after_reject")
		return
	}
	vAssert(got == n, "ustep.n")
	vAssert(vDFAMap(u.state) == rs, "ustep.state_advanced")
	vAssert(u.Valid() == (rs == 0), "ustep.valid")
	vAssert(uint64(u.Accepted()) == acc, "ustep.accepted")
	vAssert(vEqBytes(buf[:n], data), "ustep.bytes_passed_through")
}
