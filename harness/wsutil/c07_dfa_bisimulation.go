//go:build verif

package wsutil

// C07_dfa_bisimulation: the table-driven decoder and the reference automaton written from
// Unicode Table 3-7 make the same transition from every state on every byte (so they accept
// the same strings of ANY length), and the transition does not depend on the code point.
func C07_dfa_bisimulation() {
	s := vU32("state")
	vAssume(vDFAMap(s) != 99)
	b := vU8("b")
	c1, c2 := vU32("codep1"), vU32("codep2")
	_, n1 := decode(s, c1, b)
	_, n2 := decode(s, c2, b)
	vAssert(n1 == n2, "dfa.codep_independent")
	vAssert(vDFAMap(n1) != 99, "dfa.closed")
	vAssert(vDFAMap(n1) == vUTF8Step(vDFAMap(s), b), "dfa.bisimilar")
	vAssert(vAnd(vDFAMap(utf8Accept) == 0, vDFAMap(utf8Reject) == 8), "dfa.accept_reject_states")
	vTrace("next", uint64(n1))
}
