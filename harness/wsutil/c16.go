//go:build verif

package wsutil

import (
	"io"

	"github.com/gobwas/ws"
)

// vLayout describes where the frames of one generated stream start/end on the wire.
type vFrameSpan struct {
	start, hdrEnd, end int
	first, last        bool // first / last frame of a top-level item
	control            bool
	interm             bool // control frame inside a fragmented message
}

// vGenCut builds a short valid stream with its frame layout: one item (a control frame or a
// message of 1-3 frames with an optional interleaved ping) followed by a sentinel.
func vGenCut(server bool) (wire []byte, spans []vFrameSpan) {
	key := [4]byte{vU8("k0"), vU8("k1"), vU8("k2"), vU8("k3")}
	add := func(fin bool, op byte, n int, first, last, control, interm bool) {
		p := vBytes("f", n)
		if !control {
			for _, c := range p {
				vAssume(c < 0x80)
			}
		}
		b := vEncode(vFrame{fin: fin, op: op, masked: server, key: key, payload: p})
		spans = append(spans, vFrameSpan{start: len(wire), hdrEnd: len(wire) + len(b) - n, end: len(wire) + len(b), first: first, last: last, control: control, interm: interm})
		wire = append(wire, b...)
	}
	n := 1 + vChoose("plen", 2)
	switch vChoose("shape", 4) {
	case 0: // single-frame message
		add(true, byte(1+vChoose("op", 2)), n, true, true, false, false)
	case 1: // two fragments
		add(false, byte(1+vChoose("op", 2)), n, true, false, false, false)
		add(true, 0, n, false, true, false, false)
	case 2: // fragment, ping, fragment
		add(false, byte(1+vChoose("op", 2)), n, true, false, false, false)
		add(true, 9, n, false, false, true, true)
		add(true, 0, n, false, true, false, false)
	case 3: // top-level ping
		add(true, 9, n, true, true, true, false)
	}
	add(true, 2, 1, true, true, false, false) // sentinel
	return wire, spans
}

// C16_reader_cut: a stream that ends (EOF) or fails at ANY byte offset never yields a
// complete-looking message, a clean end of stream inside a message, or a shortened control
// payload.
func C16_reader_cut() {
	server := vChoose("side", 2) == 0
	wire, spans := vGenCut(server)
	item := spans[:len(spans)-1] // frames of the first item
	itemEnd := item[len(item)-1].end
	cut := vChoose("cut", itemEnd) // 0 .. itemEnd-1: the first item is always incomplete
	useErr := vChoose("kind", 2) == 1
	one := vChoose("chunk", 2) == 1
	// classify the cut position
	inPayloadOrBetween := false // strictly after a complete header of the item, or between its frames
	for _, sp := range item {
		if cut >= sp.hdrEnd && cut < sp.end {
			inPayloadOrBetween = true
		}
		if cut == sp.end { // a frame boundary inside the item (not its end)
			inPayloadOrBetween = true
		}
	}
	if cut == 0 {
		inPayloadOrBetween = false
	}
	api := vChoose("api", 4)
	switch api {
	case 0: // Reader + read until EOF
		src := &vCutSrc{data: wire, cut: cut, useErr: useErr, one: one}
		var handed [][]byte
		rd := &Reader{Source: src, State: vSide(server), CheckUTF8: true}
		rd.OnIntermediate = func(h ws.Header, r io.Reader) error {
			p, err := vReadAllB(r, 16)
			if err == io.EOF {
				handed = append(handed, p)
				vAssert(int64(len(p)) == h.Length, "cut.intermediate_handler_gets_whole_payload_or_error")
				return nil
			}
			return err
		}
		_, err := rd.NextFrame()
		if err == nil {
			_, err = vReadAllB(rd, 16)
			vAssert(err != io.EOF, "cut.read_until_eof_never_completes")
			vAssert(err != nil, "cut.read_reports_error")
		} else if cut > 0 {
			vAssert(true, "cut.header_cut_is_error")
		}
		if useErr && err != nil && cut > 0 {
			// a transport error must not be turned into a clean EOF
			vAssert(err != io.EOF, "cut.transport_error_not_eof")
		}
	case 1: // Discard
		src := &vCutSrc{data: wire, cut: cut, useErr: useErr, one: one}
		rd := &Reader{Source: src, State: vSide(server)}
		_, err := rd.NextFrame()
		if err == nil {
			vAssert(rd.Discard() != nil, "cut.discard_of_cut_message_fails")
		}
	case 2: // ReadMessage
		src := &vCutSrc{data: wire, cut: cut, useErr: useErr, one: one}
		ms, err := ReadMessage(src, vSide(server), nil)
		vAssert(err != nil, "cut.readmessage_fails")
		if inPayloadOrBetween {
			vAssert(err != io.EOF, "cut.readmessage_not_clean_eof")
		}
		for _, m := range ms {
			_ = m
		}
		// no (control) message is returned shortened
		for i, m := range ms {
			if i < len(item) && item[1].interm && len(item) == 3 {
				vAssert(len(m.Payload) == item[1].end-item[1].hdrEnd, "cut.readmessage_no_shortened_control")
			}
		}
	case 3: // readData
		rw := &vCutRW{vCutSrc: vCutSrc{data: wire, cut: cut, useErr: useErr, one: one}}
		p, _, err := readData(rw, vSide(server), ws.OpText|ws.OpBinary)
		vAssert(err != nil, "cut.readdata_fails")
		_ = p // bytes returned together with a non-nil error are not a success report (not asserted)
		if inPayloadOrBetween {
			vAssert(err != io.EOF, "cut.readdata_not_clean_eof")
		}
		// a pong is only ever sent for a completely received ping
		fs, ok := vParseFrames(rw.out)
		if ok {
			for _, f := range fs {
				if f.op == 10 {
					for _, sp := range item {
						if sp.control {
							vAssert(len(f.payload) == sp.end-sp.hdrEnd, "cut.no_pong_for_shortened_ping")
						}
					}
				}
			}
		}
	}
}

// C16_readframe_cut: ws.ReadFrame of a cut frame returns an error.
func C16_readframe_cut() {
	n := 1 + vChoose("plen", 3)
	f := vFrame{fin: true, op: 2, masked: vChoose("masked", 2) == 1, key: [4]byte{1, 2, 3, 4}, payload: vBytes("p", n)}
	wire := vEncode(f)
	cut := vChoose("cut", len(wire))
	src := &vCutSrc{data: wire, cut: cut, useErr: vChoose("kind", 2) == 1, one: vChoose("chunk", 2) == 1}
	_, err := ws.ReadFrame(src)
	vAssert(err != nil, "cut.readframe_fails")
	_, err = ws.ReadHeader(&vCutSrc{data: wire, cut: vChoose("hcut", len(wire)-n)})
	vAssert(err != nil, "cut.readheader_fails")
}

// C16_writer_sticky: once the destination has failed, every later write and flush reports the
// error and sends nothing more.
func C16_writer_sticky() {
	server := vChoose("side", 2) == 0
	bufLen := 2
	op := ws.OpText
	if vChoose("mode", 2) == 0 {
		// (a) arbitrary state with a sticky error already set: one operation
		dst := &vDst{failAt: -1}
		w := vMkWriter(dst, server, bufLen, op)
		w.n = vChoose("n", bufLen+1)
		w.fseq = vChoose("fseq", 2)
		w.dirty = vBool("dirty")
		w.noFlush = vBool("noflush")
		w.err = vErrDst
		var err error
		switch vChoose("kind", 4) {
		case 0:
			_, err = w.Write(vBytes("p", vChoose("plen", 6)))
		case 1:
			_, err = w.WriteThrough(vBytes("p", vChoose("plen", 4)))
		case 2:
			err = w.Flush()
		case 3:
			err = w.FlushFragment()
		}
		vAssert(err == vErrDst, "sticky.error_returned")
		vAssert(len(dst.calls) == 0, "sticky.nothing_sent")
		return
	}
	// (b) the j-th destination write fails during a sequence
	dst := &vDst{failAt: vChoose("failat", 3)}
	w := vMkWriter(dst, server, bufLen, op)
	failedSeen := false
	callsAtFail := 0
	for s := 0; s < 4; s++ {
		var err error
		switch vChoose("kind", 3) {
		case 0:
			_, err = w.Write(vBytes("p", []int{1, 3, 5}[vChoose("plen", 3)]))
		case 1:
			err = w.FlushFragment()
		case 2:
			err = w.Flush()
		}
		if failedSeen {
			vAssert(err != nil, "sticky.later_ops_fail")
			vAssert(len(dst.calls) == callsAtFail, "sticky.no_bytes_after_failure")
		}
		if dst.failed && !failedSeen {
			vAssert(err != nil, "sticky.failure_reported_by_failing_op")
			failedSeen = true
			callsAtFail = len(dst.calls)
		}
	}
	// (a frame torn by the failing write itself is a truncation, not a hole: not asserted)
}
