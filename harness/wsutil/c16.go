//go:build verif

package wsutil

// vLayout describes where the frames of one generated stream start/end on the wire.
type vFrameSpan struct {
	start, hdrEnd, end int
	first, last        bool // first / last frame of a top-level item
	control            bool
	interm             bool // control frame inside a fragmented message
}

// vGenCut builds a short valid stream with its frame layout: one item (a control frame or a
// message of 1-3 frames with an optional interleaved ping) followed by a sentinel.
func vGenCut(server bool) (wire []byte, spans []vFrameSpan) {
	key := [4]byte{vU8("k0"), vU8("k1"), vU8("k2"), vU8("k3")}
	add := func(fin bool, op byte, n int, first, last, control, interm bool) {
		p := vBytes("f", n)
		if !control {
			for _, c := range p {
				vAssume(c < 0x80)
			}
		}
		b := vEncode(vFrame{fin: fin, op: op, masked: server, key: key, payload: p})
		spans = append(spans, vFrameSpan{start: len(wire), hdrEnd: len(wire) + len(b) - n, end: len(wire) + len(b), first: first, last: last, control: control, interm: interm})
		wire = append(wire, b...)
	}
	n := vChoose("plen", 3) // 0..2 payload bytes per frame (empty frames and fragments included)
	switch vChoose("shape", 5+2*vTier()) {
	case 6: // thorough: three fragments
		add(false, byte(1+vChoose("op", 2)), n, true, false, false, false)
		add(false, 0, n, false, false, false, false)
		add(true, 0, n, false, true, false, false)
	case 5: // thorough: fragment, pong, ping, fragment
		add(false, byte(1+vChoose("op", 2)), n, true, false, false, false)
		add(true, 10, n, false, false, true, true)
		add(true, 9, n, false, false, true, true)
		add(true, 0, n, false, true, false, false)
	case 4: // top-level pong (nothing to answer)
		add(true, 10, n, true, true, true, false)
	case 0: // single-frame message
		add(true, byte(1+vChoose("op", 2)), n, true, true, false, false)
	case 1: // two fragments
		add(false, byte(1+vChoose("op", 2)), n, true, false, false, false)
		add(true, 0, n, false, true, false, false)
	case 2: // fragment, ping, fragment
		add(false, byte(1+vChoose("op", 2)), n, true, false, false, false)
		add(true, 9, n, false, false, true, true)
		add(true, 0, n, false, true, false, false)
	case 3: // top-level ping
		add(true, 9, n, true, true, true, false)
	}
	add(true, 2, 1, true, true, false, false) // sentinel
	return wire, spans
}
