//go:build verif

package wsutil

import (
	"io"

	"github.com/gobwas/ws"
)

// C15_maxframe_no_payload_read: with a maximum frame size configured, a frame announcing more
// is refused before ANY of its payload is read — from any reader state (fragmented or not),
// whatever the frame kind, with or without header checking.
func C15_maxframe_no_payload_read() {
	st := ws.State(vU8("state"))
	vAssume(st <= 15)
	S := vBytes("hdr", 14)
	extra := vBytes("payload", 3)
	max := int64(vU64("maxframe"))
	vAssume(max > 0)
	l7 := S[1] & 0x7f
	hs := 2
	var L uint64
	switch {
	case l7 == 126:
		hs = 4
		L = uint64(S[2])<<8 | uint64(S[3])
	case l7 == 127:
		hs = 10
		for i := 0; i < 8; i++ {
			L = L<<8 | uint64(S[2+i])
		}
		vAssume(S[2]&0x80 == 0)
	default:
		L = uint64(l7)
	}
	if S[1]&0x80 != 0 {
		hs += 4
	}
	vAssume(L > uint64(max)) // the frame announces more than the limit
	wire := append(append([]byte{}, S[:hs]...), extra...)
	src := vNewSrc(wire, vChoose("mode", 2), "chunk")
	rd := &Reader{Source: &src, State: st, MaxFrameSize: max, SkipHeaderCheck: vBool("skipcheck")}
	if st.Fragmented() {
		rd.opCode = ws.OpText
	}
	handed := 0
	rd.OnIntermediate = func(h ws.Header, r io.Reader) error { handed++; return nil }
	_, err := rd.NextFrame()
	vAssert(err != nil, "maxframe.oversized_frame_refused")
	vAssert(src.pos <= hs, "maxframe.no_payload_byte_read")
	vAssert(handed == 0, "maxframe.no_handler_called")
}
