//go:build verif

package wsutil

import (
	"io"

	"github.com/gobwas/ws"
)

// vFrame is a frame descriptor; payload is the *unmasked* application payload.
type vFrame struct {
	fin     bool
	rsv     byte
	op      byte
	masked  bool
	key     [4]byte
	payload []byte
}

// vEncode is the harness' own RFC 6455 §5.2/5.3 encoder (independent of ws.WriteHeader/Cipher).
func vEncode(f vFrame) []byte {
	var out []byte
	b0 := f.rsv<<4 | f.op
	if f.fin {
		b0 |= 0x80
	}
	out = append(out, b0)
	n := len(f.payload)
	var b1 byte
	if f.masked {
		b1 = 0x80
	}
	switch {
	case n <= 125:
		out = append(out, b1|byte(n))
	case n <= 65535:
		out = append(out, b1|126, byte(n>>8), byte(n))
	default:
		out = append(out, b1|127, 0, 0, 0, 0, byte(n>>24), byte(n>>16), byte(n>>8), byte(n))
	}
	if f.masked {
		out = append(out, f.key[0], f.key[1], f.key[2], f.key[3])
		for i, c := range f.payload {
			out = append(out, c^f.key[i%4])
		}
	} else {
		out = append(out, f.payload...)
	}
	return out
}

// vParsed is a frame parsed back by the harness' own decoder.
type vParsed struct {
	fin     bool
	rsv     byte
	op      byte
	masked  bool
	key     [4]byte
	payload []byte // unmasked
	raw     []byte // as on the wire
}

// vParseFrames splits b into whole frames with the harness' own RFC decoder (payload
// lengths must be concrete).  ok=false if b does not consist of whole frames.
func vParseFrames(b []byte) (fs []vParsed, ok bool) {
	for len(b) > 0 {
		if len(b) < 2 {
			return fs, false
		}
		var p vParsed
		p.fin = b[0]&0x80 != 0
		p.rsv = (b[0] >> 4) & 7
		p.op = b[0] & 15
		p.masked = b[1]&0x80 != 0
		l7 := int(vConcrete(uint64(b[1] & 0x7f)))
		n := l7
		off := 2
		switch l7 {
		case 126:
			if len(b) < 4 {
				return fs, false
			}
			n = int(vConcrete(uint64(b[2])<<8 | uint64(b[3])))
			off = 4
		case 127:
			if len(b) < 10 {
				return fs, false
			}
			var L uint64
			for i := 0; i < 8; i++ {
				L = L<<8 | uint64(b[2+i])
			}
			n = int(vConcrete(L))
			off = 10
		}
		if p.masked {
			if len(b) < off+4 {
				return fs, false
			}
			copy(p.key[:], b[off:off+4])
			off += 4
		}
		if n < 0 || len(b) < off+n {
			return fs, false
		}
		p.raw = b[off : off+n]
		p.payload = make([]byte, n)
		for i := 0; i < n; i++ {
			if p.masked {
				p.payload[i] = p.raw[i] ^ p.key[i%4]
			} else {
				p.payload[i] = p.raw[i]
			}
		}
		fs = append(fs, p)
		b = b[off+n:]
	}
	return fs, true
}

// vRW is a stub connection: Read serves `in` with a chunking mode, Write records.
type vRW struct {
	vSrc
	out    []byte
	writes int
}

func (c *vRW) Write(p []byte) (int, error) {
	vPoisonPools() // other goroutines run during I/O: released pool buffers get recycled
	c.writes++
	c.out = append(c.out, p...)
	return len(p), nil
}

// vModeSrc reads with a chunking mode fixed for the path: 0 whole, 1 one byte per read,
// 2 nondeterministic per read (all / 1 / 2 bytes), 3 whole reads with the final bytes delivered
// together with io.EOF.
func vNewSrc(data []byte, mode int, name string) vSrc {
	// mode 3: whole reads, the last bytes delivered together with io.EOF
	// mode 4: two-byte reads, every other Read returning (0, nil)
	// mode 5: four bytes per read
	return vSrc{data: data, name: name, whole: mode == 0 || mode == 3, one: mode == 1, eofWith: mode == 3, ndLeft: 4, zero: mode == 4, four: mode == 5}
}

// vReadAllB drains r with a caller buffer of size B, tolerating (0,nil) reads.
func vReadAllB(r io.Reader, B int) ([]byte, error) {
	var out []byte
	buf := make([]byte, B)
	for i := 0; i < 64; i++ {
		n, err := r.Read(buf)
		out = append(out, buf[:n]...)
		if err != nil {
			return out, err
		}
	}
	return out, io.ErrNoProgress
}

func vSide(server bool) ws.State {
	if server {
		return ws.StateServerSide
	}
	return ws.StateClientSide
}

// vDst records every Write call; optionally fails at call index failAt.
type vDst struct {
	calls  [][]byte
	all    []byte
	failAt int
	failed bool
}

type vErr struct{ s string }

func (e *vErr) Error() string { return e.s }

var vErrDst = &vErr{"harness: destination write failed"}

func (d *vDst) Write(p []byte) (int, error) {
	vPoisonPools() // other goroutines run during I/O: released pool buffers get recycled
	if d.failAt >= 0 && len(d.calls) >= d.failAt {
		d.failed = true
		d.calls = append(d.calls, nil)
		return 0, vErrDst
	}
	c := append([]byte{}, p...)
	d.calls = append(d.calls, c)
	d.all = append(d.all, c...)
	return len(p), nil
}

// vItem is one top-level item of a valid stream: a control frame or a data message.
type vItem struct {
	control bool
	op      byte
	payload []byte  // control payload or whole message payload
	inter   []vItem // control frames interleaved inside a fragmented message (in order)
}

// vGenStream builds a nondeterministic VALID frame stream of k frames (+ closing frames),
// returning the wire bytes and the reference decomposition.
func vGenStream(server bool, k int, maxPayload int, asciiText bool) ([]byte, []vItem) {
	wire, items, _, _ := vGenStreamX(server, k, maxPayload, asciiText, true)
	return wire, items
}

// vGenStreamX: with complete=false the stream is left as generated (possibly with an open
// fragmented message, returned as cur when frag is true) and no sentinel is appended.
func vGenStreamX(server bool, k int, maxPayload int, asciiText bool, complete bool) ([]byte, []vItem, bool, vItem) {
	var wire []byte
	var items []vItem
	frag := false
	var cur vItem
	frame := func(fin bool, op byte, n int, tag string) []byte {
		p := vBytes(tag, n)
		f := vFrame{fin: fin, op: op, masked: server, payload: p}
		if server {
			f.key = [4]byte{vU8(tag + ".k0"), vU8(tag + ".k1"), vU8(tag + ".k2"), vU8(tag + ".k3")}
		}
		wire = append(wire, vEncode(f)...)
		return p
	}
	text := func(p []byte) {
		if asciiText {
			for _, c := range p {
				vAssume(c < 0x80)
			}
		}
	}
	for i := 0; i < k; i++ {
		n := vChoose("plen", maxPayload+1)
		if !frag {
			kind := vChoose("kind", 6)
			switch kind {
			case 0, 1, 2, 3: // text final / text non-final / binary final / binary non-final
				fin := kind%2 == 0
				op := byte(1 + kind/2)
				p := frame(fin, op, n, "f")
				if op == 1 {
					text(p)
				}
				cur = vItem{op: op, payload: append([]byte{}, p...)}
				if fin {
					items = append(items, cur)
				} else {
					frag = true
				}
			case 4:
				p := frame(true, 9, n, "f")
				items = append(items, vItem{control: true, op: 9, payload: p})
			case 5:
				p := frame(true, 10, n, "f")
				items = append(items, vItem{control: true, op: 10, payload: p})
			}
		} else {
			kind := vChoose("kindf", 4)
			switch kind {
			case 0, 1: // continuation final / non-final
				fin := kind == 0
				p := frame(fin, 0, n, "f")
				if cur.op == 1 {
					text(p)
				}
				cur.payload = append(cur.payload, p...)
				if fin {
					items = append(items, cur)
					frag = false
				}
			case 2:
				p := frame(true, 9, n, "f")
				cur.inter = append(cur.inter, vItem{control: true, op: 9, payload: p})
			case 3:
				p := frame(true, 10, n, "f")
				cur.inter = append(cur.inter, vItem{control: true, op: 10, payload: p})
			}
		}
	}
	if !complete {
		return wire, items, frag, cur
	}
	if frag { // close the open message with a final (possibly empty) continuation
		n := vChoose("plen", 2)
		p := frame(true, 0, n, "f")
		if cur.op == 1 {
			text(p)
		}
		cur.payload = append(cur.payload, p...)
		items = append(items, cur)
	}
	// sentinel message
	p := frame(true, 2, 1, "sent")
	items = append(items, vItem{op: 2, payload: p})
	return wire, items, false, vItem{}
}

// vCutSrc serves data[:cut] and then EOF or an error.
type vCutSrc struct {
	data     []byte
	cut      int
	pos      int
	useErr   bool
	one      bool
	withData bool // report the end (EOF or error) together with the last bytes before the cut
}

var vErrSrc = &vErr{"harness: transport failed"}

func (s *vCutSrc) Read(p []byte) (int, error) {
	if s.pos >= s.cut {
		if s.useErr {
			return 0, vErrSrc
		}
		return 0, io.EOF
	}
	if len(p) == 0 {
		return 0, nil
	}
	n := s.cut - s.pos
	if n > len(p) {
		n = len(p)
	}
	if s.one {
		n = 1
	}
	copy(p, s.data[s.pos:s.pos+n])
	s.pos += n
	if s.withData && s.pos >= s.cut {
		if s.useErr {
			return n, vErrSrc
		}
		return n, io.EOF
	}
	return n, nil
}

// vStallSrc serves its data and then returns (0, nil) for ever.
type vStallSrc struct {
	data []byte
	pos  int
}

func (s *vStallSrc) Read(p []byte) (int, error) {
	n := copy(p, s.data[s.pos:])
	s.pos += n
	return n, nil
}

type vCutRW struct {
	vCutSrc
	out []byte
}

func (c *vCutRW) Write(p []byte) (int, error) {
	vPoisonPools()
	c.out = append(c.out, p...)
	return len(p), nil
}

// vChunkSrc returns exactly k bytes (k chosen per call) of data per Read.
type vChunkSrc struct {
	data    []byte
	pos     int
	withErr int // 0: (n, nil); 1: (n, io.EOF) together with the data; 2: (n, transient error)
	lastErr error
}

func (s *vChunkSrc) Read(p []byte) (int, error) {
	n := len(s.data) - s.pos
	if n > len(p) {
		n = len(p)
	}
	n = vChoose("take", n+1) // any amount 0..n
	copy(p, s.data[s.pos:s.pos+n])
	s.pos += n
	// the io.Reader contract allows data and an error in the same call
	switch s.withErr {
	case 1:
		s.lastErr = io.EOF
	case 2:
		s.lastErr = vErrSrc
	}
	return n, s.lastErr
}

// vPartialDst accepts only the first k bytes of a write (k chosen), reporting a short write.
type vPartialDst struct {
	all   []byte
	short bool
}

func (d *vPartialDst) Write(p []byte) (int, error) {
	n := len(p)
	if d.short {
		n = vChoose("accept", len(p)+1)
	}
	d.all = append(d.all, p[:n]...)
	if n < len(p) {
		return n, io.ErrShortWrite
	}
	return n, nil
}

// vHeaderBroken is the RFC 6455 framing-rule oracle of C03 (which rule set a header breaks
// in a given endpoint state).
func vHeaderBroken(fin bool, rsv, op byte, masked bool, length uint64, server, client, ext, frag bool) bool {
	reserved := vOr(vIn(op, 3, 7), vIn(op, 0xb, 0xf))
	control := op&8 != 0
	r := vOr(reserved, vAnd(control, length > 125))
	r = vOr(r, vAnd(control, !fin))
	r = vOr(r, vAnd(rsv != 0, !ext))
	r = vOr(r, vAnd(server, !masked))
	r = vOr(r, vAnd(client, masked))
	r = vOr(r, vAnd(frag, vAnd(!control, op != 0)))
	r = vOr(r, vAnd(!frag, op == 0))
	return r
}

// vCloseOracle: RFC 6455 §7.4 validity of a close payload (code + reason), with the open
// region (1012-1014, >=5000) reported separately.
func vCloseOracle(payload []byte) (valid, open bool) {
	c := uint16(payload[0])<<8 | uint16(payload[1])
	codeOK := vOr(vAnd(c >= 1000, c <= 1003), vOr(vAnd(c >= 1007, c <= 1011), vAnd(c >= 3000, c <= 4999)))
	open = vOr(vAnd(c >= 1012, c <= 1014), c >= 5000)
	return vAnd(codeOK, vUTF8Valid(payload[2:])), open
}

type vStubAddr struct{}

func (vStubAddr) Network() string { return "tcp" }

func (vStubAddr) String() string { return "stub" }
