//go:build verif

package wsutil

import (
	"io"

	"github.com/gobwas/ws"
)

// vFrame is a frame descriptor; payload is the *unmasked* application payload.
type vFrame struct {
	fin     bool
	rsv     byte
	op      byte
	masked  bool
	key     [4]byte
	payload []byte
}

// vEncode is the harness' own RFC 6455 §5.2/5.3 encoder (independent of ws.WriteHeader/Cipher).
func vEncode(f vFrame) []byte {
	var out []byte
	b0 := f.rsv<<4 | f.op
	if f.fin {
		b0 |= 0x80
	}
	out = append(out, b0)
	n := len(f.payload)
	var b1 byte
	if f.masked {
		b1 = 0x80
	}
	switch {
	case n <= 125:
		out = append(out, b1|byte(n))
	case n <= 65535:
		out = append(out, b1|126, byte(n>>8), byte(n))
	default:
		out = append(out, b1|127, 0, 0, 0, 0, byte(n>>24), byte(n>>16), byte(n>>8), byte(n))
	}
	if f.masked {
		out = append(out, f.key[0], f.key[1], f.key[2], f.key[3])
		for i, c := range f.payload {
			out = append(out, c^f.key[i%4])
		}
	} else {
		out = append(out, f.payload...)
	}
	return out
}

// vParsed is a frame parsed back by the harness' own decoder.
type vParsed struct {
	fin     bool
	rsv     byte
	op      byte
	masked  bool
	key     [4]byte
	payload []byte // unmasked
	raw     []byte // as on the wire
}

// vParseFrames splits b into whole frames with the harness' own RFC decoder (payload
// lengths must be concrete).  ok=false if b does not consist of whole frames.
func vParseFrames(b []byte) (fs []vParsed, ok bool) {
	for len(b) > 0 {
		if len(b) < 2 {
			return fs, false
		}
		var p vParsed
		p.fin = b[0]&0x80 != 0
		p.rsv = (b[0] >> 4) & 7
		p.op = b[0] & 15
		p.masked = b[1]&0x80 != 0
		l7 := int(vConcrete(uint64(b[1] & 0x7f)))
		n := l7
		off := 2
		switch l7 {
		case 126:
			if len(b) < 4 {
				return fs, false
			}
			n = int(vConcrete(uint64(b[2])<<8 | uint64(b[3])))
			off = 4
		case 127:
			if len(b) < 10 {
				return fs, false
			}
			var L uint64
			for i := 0; i < 8; i++ {
				L = L<<8 | uint64(b[2+i])
			}
			n = int(vConcrete(L))
			off = 10
		}
		if p.masked {
			if len(b) < off+4 {
				return fs, false
			}
			copy(p.key[:], b[off:off+4])
			off += 4
		}
		if n < 0 || len(b) < off+n {
			return fs, false
		}
		p.raw = b[off : off+n]
		p.payload = make([]byte, n)
		for i := 0; i < n; i++ {
			if p.masked {
				p.payload[i] = p.raw[i] ^ p.key[i%4]
			} else {
				p.payload[i] = p.raw[i]
			}
		}
		fs = append(fs, p)
		b = b[off+n:]
	}
	return fs, true
}

// vRW is a stub connection: Read serves `in` with a chunking mode, Write records.
type vRW struct {
	vSrc
	out    []byte
	writes int
}

func (c *vRW) Write(p []byte) (int, error) {
	c.writes++
	c.out = append(c.out, p...)
	return len(p), nil
}

// vModeSrc reads with a chunking mode fixed for the path: 0 whole, 1 one byte per read,
// 2 nondeterministic per read (all / 1 / 2 bytes).
func vNewSrc(data []byte, mode int, name string) vSrc {
	return vSrc{data: data, name: name, whole: mode == 0, one: mode == 1}
}

// vReadAllB drains r with a caller buffer of size B, tolerating (0,nil) reads.
func vReadAllB(r io.Reader, B int) ([]byte, error) {
	var out []byte
	buf := make([]byte, B)
	for i := 0; i < 64; i++ {
		n, err := r.Read(buf)
		out = append(out, buf[:n]...)
		if err != nil {
			return out, err
		}
	}
	return out, io.ErrNoProgress
}

func vSide(server bool) ws.State {
	if server {
		return ws.StateServerSide
	}
	return ws.StateClientSide
}

// vDst records every Write call; optionally fails at call index failAt.
type vDst struct {
	calls  [][]byte
	all    []byte
	failAt int
	failed bool
}

type vErr struct{ s string }

func (e *vErr) Error() string { return e.s }

var vErrDst = &vErr{"harness: destination write failed"}

func (d *vDst) Write(p []byte) (int, error) {
	if d.failAt >= 0 && len(d.calls) >= d.failAt {
		d.failed = true
		d.calls = append(d.calls, nil)
		return 0, vErrDst
	}
	c := append([]byte{}, p...)
	d.calls = append(d.calls, c)
	d.all = append(d.all, c...)
	return len(p), nil
}

