//go:build verif

package wsutil

import (
	"io"

	"github.com/gobwas/ws"
)

// C07_reader_extensions: the UTF-8 verdict of the checking Reader does not depend on receive
// extensions being installed: an empty (non-nil) list, or one that passes headers through --
// the normal set-up of an extended connection.  Text of 0..2 arbitrary bytes in one frame or two
// fragments: delivered without error iff valid.
func C07_reader_extensions() {
	server := vChoose("side", 2) == 0
	n := vChoose("n", 3)
	p := vBytes("p", n)
	key := [4]byte{vU8("k0"), vU8("k1"), vU8("k2"), vU8("k3")}
	split := vChoose("split", n+2) // n+1: unfragmented
	var wire []byte
	if split == n+1 {
		wire = vEncode(vFrame{fin: true, op: 1, masked: server, key: key, payload: p})
	} else {
		wire = vEncode(vFrame{fin: false, op: 1, masked: server, key: key, payload: p[:split]})
		wire = append(wire, vEncode(vFrame{fin: true, op: 0, masked: server, key: key, payload: p[split:]})...)
	}
	src := vNewSrc(wire, 0, "chunk")
	st := vSide(server)
	if vChoose("extended", 2) == 1 {
		st |= ws.StateExtended
	}
	rd := &Reader{Source: &src, State: st, CheckUTF8: true}
	switch vChoose("exts", 3) {
	case 0:
		rd.Extensions = []RecvExtension{}
	case 1:
		rd.Extensions = make([]RecvExtension, 0, 2)
	case 2:
		rd.Extensions = []RecvExtension{RecvExtensionFunc(func(h ws.Header) (ws.Header, error) { return h, nil })}
	}
	_, err := rd.NextFrame()
	vAssert(err == nil, "textext.first_ok")
	if err != nil {
		return
	}
	got, err := vReadAllB(rd, 16)
	valid := vUTF8Valid(p)
	vAssert((err == io.EOF) == valid, "textext.complete_iff_valid")
	vAssert(vImplies(!valid, err == ErrInvalidUTF8), "textext.invalid_reported")
	if err == io.EOF {
		vAssert(vEqBytes(got, p), "textext.payload")
	}
}
