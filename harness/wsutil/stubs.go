//go:build verif

package wsutil

import (
	"io"
)

// vSrc serves data with nondeterministic chunking (all / 1 byte / 2 bytes per Read).
type vSrc struct {
	data    []byte
	pos     int
	reads   int
	name    string
	whole   bool // no chunking nondeterminism
	one     bool // one byte per read
	eofWith bool // deliver the last bytes together with io.EOF (allowed by the io.Reader contract)
	ndLeft  int  // nondeterministic reads left (then whole reads); bounds the 3^reads fan-out
	zero    bool // every other Read returns (0, nil) (legal, if discouraged, for an io.Reader)
	four    bool // at most four bytes per read
}

func (s *vSrc) Read(p []byte) (int, error) {
	s.reads++
	if s.pos >= len(s.data) {
		return 0, io.EOF
	}
	if len(p) == 0 {
		return 0, nil
	}
	if s.zero && s.reads%2 == 1 {
		return 0, nil
	}
	n := len(s.data) - s.pos
	if n > len(p) {
		n = len(p)
	}
	if s.one {
		n = 1
	} else if s.four {
		if n > 4 {
			n = 4
		}
	} else if s.zero {
		if n > 2 {
			n = 2
		}
	} else if !s.whole && n > 1 && s.ndLeft > 0 {
		s.ndLeft--
		k := 3
		if n == 2 {
			k = 2
		}
		switch vChoose(s.name, k) {
		case 1:
			n = 1
		case 2:
			n = 2
		}
	}
	copy(p, s.data[s.pos:s.pos+n])
	s.pos += n
	if s.eofWith && s.pos >= len(s.data) {
		return n, io.EOF
	}
	return n, nil
}

func vIn(b, lo, hi byte) bool { return vAnd(b >= lo, b <= hi) }

// vUTF8Step is the reference UTF-8 automaton written from Unicode Table 3-7
// (well-formed byte sequences), branch-free.  States: 0 start/accept, 1..3 =
// that many continuation bytes pending, 4 after E0, 5 after ED, 6 after F0,
// 7 after F4, 8 reject.
func vUTF8Step(s uint64, b byte) uint64 {
	fromStart := vIte(b <= 0x7f, 0,
		vIte(vIn(b, 0xC2, 0xDF), 1,
			vIte(b == 0xE0, 4,
				vIte(vOr(vIn(b, 0xE1, 0xEC), vIn(b, 0xEE, 0xEF)), 2,
					vIte(b == 0xED, 5,
						vIte(b == 0xF0, 6,
							vIte(vIn(b, 0xF1, 0xF3), 3,
								vIte(b == 0xF4, 7, 8))))))))
	cont := vIn(b, 0x80, 0xBF)
	return vIte(s == 0, fromStart,
		vIte(s == 1, vIte(cont, 0, 8),
			vIte(s == 2, vIte(cont, 1, 8),
				vIte(s == 3, vIte(cont, 2, 8),
					vIte(s == 4, vIte(vIn(b, 0xA0, 0xBF), 1, 8),
						vIte(s == 5, vIte(vIn(b, 0x80, 0x9F), 1, 8),
							vIte(s == 6, vIte(vIn(b, 0x90, 0xBF), 2, 8),
								vIte(s == 7, vIte(vIn(b, 0x80, 0x8F), 2, 8), 8))))))))
}

// vUTF8Valid: reference well-formedness of a whole byte string.
func vUTF8Valid(p []byte) bool {
	s := uint64(0)
	for _, b := range p {
		s = vUTF8Step(s, b)
	}
	return s == 0
}
