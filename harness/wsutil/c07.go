//go:build verif

package wsutil

import (
	"io"

	"github.com/gobwas/ws"
)

// vDFAMap maps the implementation's DFA state (a row offset into utf8d) to the reference
// automaton's state; 99 for values that are not DFA states.
func vDFAMap(s uint32) uint64 {
	return vIte(s == 0, 0, vIte(s == 12, 8, vIte(s == 24, 1, vIte(s == 36, 2, vIte(s == 48, 4,
		vIte(s == 60, 5, vIte(s == 72, 6, vIte(s == 84, 3, vIte(s == 96, 7, 99)))))))))
}

// C07_dfa_bisimulation: the table-driven decoder and the reference automaton written from
// Unicode Table 3-7 make the same transition from every state on every byte (so they accept
// the same strings of ANY length), and the transition does not depend on the code point.
func C07_dfa_bisimulation() {
	s := vU32("state")
	vAssume(vDFAMap(s) != 99)
	b := vU8("b")
	c1, c2 := vU32("codep1"), vU32("codep2")
	_, n1 := decode(s, c1, b)
	_, n2 := decode(s, c2, b)
	vAssert(n1 == n2, "dfa.codep_independent")
	vAssert(vDFAMap(n1) != 99, "dfa.closed")
	vAssert(vDFAMap(n1) == vUTF8Step(vDFAMap(s), b), "dfa.bisimilar")
	vAssert(vAnd(vDFAMap(utf8Accept) == 0, vDFAMap(utf8Reject) == 8), "dfa.accept_reject_states")
	vTrace("next", uint64(n1))
}

// C07_reader_step: UTF8Reader.Read from an arbitrary DFA state over n<=4 arbitrary bytes.
func C07_reader_step() {
	s := vU32("state")
	vAssume(vAnd(vDFAMap(s) != 99, s != utf8Reject))
	maxN := 3 + vTier()
	n := vChoose("n", maxN+1)
	data := vBytes("d", n)
	src := vNewSrc(data, 0, "chunk")
	u := &UTF8Reader{Source: &src, state: s, codep: vU32("codep"), accepted: int(vU8("stale"))}
	buf := make([]byte, 8)
	got, err := u.Read(buf)
	// reference run
	rs := vDFAMap(s)
	rejected := false
	acc := uint64(0)
	for i := 0; i < n; i++ {
		rs = vUTF8Step(rs, data[i])
		rejected = vOr(rejected, rs == 8)
		acc = vIte(vAnd(!rejected, rs == 0), uint64(i+1), acc)
	}
	vAssert((err == ErrInvalidUTF8) == rejected, "ustep.invalid_iff_reject")
	if err == ErrInvalidUTF8 {
		vAssert(uint64(got) == acc, "ustep.returns_last_boundary")
		vAssert(!u.Valid(), "ustep.not_valid_after_reject")
		return
	}
	vAssert(got == n, "ustep.n")
	vAssert(vDFAMap(u.state) == rs, "ustep.state_advanced")
	vAssert(u.Valid() == (rs == 0), "ustep.valid")
	vAssert(uint64(u.Accepted()) == acc, "ustep.accepted")
	vAssert(vEqBytes(buf[:n], data), "ustep.bytes_passed_through")
}

// C07_reader_text: with CheckUTF8, a (possibly fragmented) text message is delivered without
// error iff the whole payload is valid UTF-8, wherever the fragment boundary / interleaved
// control frame / read boundary falls; binary is never checked; the next message starts clean.
func C07_reader_text() {
	server := vChoose("side", 2) == 0
	total := 3 + vTier()
	n := vChoose("n", total+1)
	p := vBytes("p", n)
	split := vChoose("split", n+2) // n+1 = unfragmented
	op := byte(1 + vChoose("op", 2))
	var wire []byte
	key := [4]byte{vU8("k0"), vU8("k1"), vU8("k2"), vU8("k3")}
	if split == n+1 {
		wire = vEncode(vFrame{fin: true, op: op, masked: server, key: key, payload: p})
	} else {
		wire = vEncode(vFrame{fin: false, op: op, masked: server, key: key, payload: p[:split]})
		if vChoose("ctl", 2) == 1 {
			wire = append(wire, vEncode(vFrame{fin: true, op: 9, masked: server, key: key, payload: []byte{0xff}})...)
		}
		wire = append(wire, vEncode(vFrame{fin: true, op: 0, masked: server, key: key, payload: p[split:]})...)
	}
	wire = append(wire, vEncode(vFrame{fin: true, op: 1, masked: server, key: key, payload: []byte{'o', 'k'}})...)
	valid := vUTF8Valid(p)
	src := vNewSrc(wire, vChoose("mode", 2), "chunk")
	if vChoose("api", 2) == 0 {
		B := []int{1, 16}[vChoose("B", 2)]
		rd := &Reader{Source: &src, State: vSide(server), CheckUTF8: true}
		_, err := rd.NextFrame()
		vAssert(err == nil, "text.first_ok")
		got, err := vReadAllB(rd, B)
		if op == 2 {
			vAssert(vAnd(err == io.EOF, vEqBytes(got, p)), "text.binary_never_checked")
		} else {
			vAssert((err == io.EOF) == valid, "text.complete_iff_valid")
			vAssert(vImplies(!valid, err == ErrInvalidUTF8), "text.invalid_reported")
			if err == io.EOF {
				vAssert(vEqBytes(got, p), "text.payload")
			}
		}
		if err != io.EOF {
			return
		}
		h, err := rd.NextFrame()
		vAssert(vAnd(err == nil, h.OpCode == ws.OpText), "text.next_ok")
		got, err = vReadAllB(rd, B)
		vAssert(vAnd(err == io.EOF, vEqBytes(got, []byte("ok"))), "text.next_clean")
		return
	}
	ms, err := ReadMessage(&src, vSide(server), nil)
	if op == 2 {
		vAssert(err == nil, "text.rm_binary_ok")
	} else {
		vAssert((err == nil) == valid, "text.rm_ok_iff_valid")
	}
	if err == nil {
		vAssert(vEqBytes(ms[len(ms)-1].Payload, p), "text.rm_payload")
		ms, err = ReadMessage(&src, vSide(server), nil)
		vAssert(vAnd(err == nil, vEqBytes(ms[len(ms)-1].Payload, []byte("ok"))), "text.rm_next_clean")
	}
}
