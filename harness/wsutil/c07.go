//go:build verif

package wsutil

// vDFAMap maps the implementation's DFA state (a row offset into utf8d) to the reference
// automaton's state; 99 for values that are not DFA states.
func vDFAMap(s uint32) uint64 {
	return vIte(s == 0, 0, vIte(s == 12, 8, vIte(s == 24, 1, vIte(s == 36, 2, vIte(s == 48, 4,
		vIte(s == 60, 5, vIte(s == 72, 6, vIte(s == 84, 3, vIte(s == 96, 7, 99)))))))))
}
