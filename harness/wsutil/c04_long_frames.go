//go:build verif

package wsutil

import (
	"io"

	"github.com/gobwas/ws"
)

// C04_long_frames: frames long enough for the word-wise unmasking path and for the 16-bit
// length form, read with small caller buffers and chunked transports: the running mask offset
// across Read calls and frames must be right.
func C04_long_frames() {
	server := vChoose("side", 2) == 0
	key := [4]byte{vU8("k0"), vU8("k1"), vU8("k2"), vU8("k3")}
	n1 := []int{9, 17, 126}[vChoose("n1", 3)]
	var p1 []byte
	if n1 <= 17 {
		p1 = vBytes("p", n1)
	} else {
		p1 = make([]byte, n1)
		for i := range p1 {
			p1[i] = byte(i)
		}
		p1[0], p1[63], p1[n1-1] = vU8("pa"), vU8("pb"), vU8("pc")
	}
	p2 := vBytes("q", 5)
	// first frame non-final, then a ping, then a final continuation
	wire := vEncode(vFrame{fin: false, op: 2, masked: server, key: key, payload: p1})
	wire = append(wire, vEncode(vFrame{fin: true, op: 9, masked: server, key: key, payload: []byte("png")})...)
	wire = append(wire, vEncode(vFrame{fin: true, op: 0, masked: server, key: key, payload: p2})...)
	src := vNewSrc(wire, []int{0, 1, 3}[vChoose("mode", 3)], "chunk")
	B := []int{1, 3, 4, 7, 64}[vChoose("B", 5)]
	pings := 0
	rd := &Reader{Source: &src, State: vSide(server)}
	rd.OnIntermediate = func(h ws.Header, r io.Reader) error {
		b, err := vReadAllB(r, 8)
		if err != io.EOF {
			return err
		}
		if string(b) == "png" {
			pings++
		}
		return nil
	}
	h, err := rd.NextFrame()
	vAssert(vAnd(err == nil, int(h.Length) == n1), "long.first_header")
	var got []byte
	buf := make([]byte, B)
	for i := 0; i < 400; i++ {
		m, e := rd.Read(buf)
		got = append(got, buf[:m]...)
		if e != nil {
			err = e
			break
		}
	}
	vAssert(err == io.EOF, "long.eof")
	vAssert(vEqBytes(got, append(append([]byte{}, p1...), p2...)), "long.payload")
	vAssert(pings == 1, "long.intermediate_ping_payload")
}
