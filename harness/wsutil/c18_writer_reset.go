//go:build verif

package wsutil

import (
	"github.com/gobwas/ws"
)

// C18_writer_reset: from ANY prior state (buffered data, fragments sent, growth, extensions,
// disabled flushing, other side, sticky error) Reset makes the writer equal to a fresh
// NewWriterBuffer over the same backing array; ResetOp keeps extensions and flush mode.
func C18_writer_reset() {
	server0 := vChoose("side0", 2) == 0
	dst0 := &vDst{failAt: -1}
	rawLen := []int{16, 140}[vChoose("raw", 2)]
	// (a caller-supplied buffer may be a prefix of a larger array: the writer owns len(buf) bytes)
	spare := []int{0, 24}[vChoose("spare", 2)]
	w := NewWriterBuffer(dst0, vSide(server0), ws.OpText, make([]byte, rawLen, rawLen+spare))
	// arbitrary history, expressed as an arbitrary state
	w.n = vChoose("n", 4)
	vSetIntLike(&w.fseq, vInt("fseq"))
	vAssume(w.fseq >= 0)
	w.dirty = vBool("dirty")
	w.noFlush = vBool("noflush")
	// extensions attached from a slice the caller keeps (SetExtensions(exts...) stores that slice)
	exts := []SendExtension{vExt{}}
	attached := vChoose("ext", 2) == 1
	if attached {
		w.SetExtensions(exts...)
	}
	if vChoose("err", 2) == 1 {
		w.err = vErrDst
	}
	if vChoose("grown", 2) == 1 {
		w.Grow(300)
	}
	if vChoose("parked", 2) == 1 {
		w.Reset(nil, 0, 0) // what PutWriter does before parking a writer in the pool
	}
	server := vChoose("side", 2) == 0
	op := ws.OpCode(1 + vChoose("op", 2))
	dst := &vDst{failAt: -1}
	raw0 := len(w.raw) // the buffer the writer owns before the reset (possibly grown)
	if vChoose("which", 2) == 0 {
		w.Reset(dst, vSide(server), op)
		fresh := NewWriterBuffer(dst, vSide(server), op, make([]byte, raw0))
		same := vAnd(w.n == fresh.n, vAnd(w.fseq == fresh.fseq, vAnd(w.dirty == fresh.dirty, w.noFlush == fresh.noFlush)))
		vAssert(same, "reset.counters_as_new")
		vAssert(vAnd(w.op == fresh.op, w.state == fresh.state), "reset.config_as_new")
		vAssert(len(w.extensions) == 0, "reset.extensions_dropped")
		vAssert(exts[0] != nil, "reset.callers_extension_slice_untouched")
		vAssert(vAnd(len(w.buf) == len(fresh.buf), len(w.raw) == len(fresh.raw)), "reset.buffer_as_new")
		vAssert(vAnd(w.Size() == fresh.Size(), w.Available() == fresh.Available()), "reset.size_as_new")
		vAssert(w.err == nil, "reset.sticky_error_cleared")
		// behaves as new: one small message
		k, err := w.Write([]byte{'h', 'i'})
		vAssert(vAnd(err == nil, k == 2), "reset.write_works")
		vAssert(w.Flush() == nil, "reset.flush_works")
		fs, ok := vParseFrames(dst.all)
		vAssert(vAnd(ok, len(fs) == 1), "reset.one_frame")
		if ok && len(fs) == 1 {
			f := fs[0]
			vAssert(vAnd(f.fin, vAnd(f.op == byte(op), vAnd(f.masked == !server, vEqBytes(f.payload, []byte("hi"))))), "reset.frame_as_new")
		}
		vAssert(len(dst0.all) == 0, "reset.old_destination_untouched")
		return
	}
	ext0, nf0 := len(w.extensions), w.noFlush
	w.ResetOp(op)
	vAssert(vAnd(w.n == 0, vAnd(w.fseq == 0, !w.dirty)), "resetop.drops_fragments")
	vAssert(vAnd(len(w.extensions) == ext0, w.noFlush == nf0), "resetop.keeps_extensions_and_flush_mode")
	vAssert(w.op == op, "resetop.op")
}
