//go:build verif

package wsutil

import (
	"github.com/gobwas/ws"
)

// C11_debug_upgrader: same for the upgrader wrapper.
func C11_debug_upgrader() {
	kind := vChoose("kind", 3) // 1: compliant; 0: wrong Connection; 2: a callback objects to the Host line while most of the request is still unread
	good := kind == 1
	reqBytes := []byte("GET /x HTTP/1.1\r\nHost: h\r\nUpgrade: websocket\r\nConnection: Upgrade\r\nSec-WebSocket-Version: 13\r\nSec-WebSocket-Key: dGhlIHNhbXBsZSBub25jZQ==\r\n\r\n")
	if !good {
		reqBytes = []byte("GET /x HTTP/1.1\r\nHost: h\r\nUpgrade: websocket\r\nConnection: close\r\nSec-WebSocket-Version: 13\r\nSec-WebSocket-Key: dGhlIHNhbXBsZSBub25jZQ==\r\n\r\n")
	}
	t := vChoose("t", 3)
	trailing := vBytes("trail", t)
	conn := &vPlainRW{in: append(append([]byte{}, reqBytes...), trailing...)}
	ref := &vPlainRW{in: conn.in}
	var u0 ws.Upgrader
	// the wrapped upgrader's own options are part of the picture: a read buffer smaller than the
	// request means the upgrader answers while request bytes are still unread
	u0.ReadBufferSize = []int{0, 32}[vChoose("readbuf", 2)]
	if kind == 2 {
		u0.OnHost = func(h []byte) error { return vErrDst }
	}
	_, err0 := u0.Upgrade(ref)
	var req, resp []byte
	d := DebugUpgrader{Upgrader: u0}
	onReq, onResp := vChoose("onrequest", 2) == 1, vChoose("onresponse", 2) == 1
	if onReq {
		d.OnRequest = func(p []byte) { req = append(req, p...) }
	}
	if onResp {
		d.OnResponse = func(p []byte) { resp = append(resp, p...) }
	}
	_, err := d.Upgrade(conn)
	vAssert((err == nil) == (err0 == nil), "debug.upgrader_outcome_unchanged")
	vAssert((err == nil) == good, "debug.upgrader_outcome")
	vAssert(vEqBytes(conn.out, ref.out), "debug.upgrader_same_bytes_written")
	if onResp {
		vAssert(vEqBytes(resp, conn.out), "debug.upgrader_response_reported")
	}
	if onReq {
		// what is reported starts with the request head (the parser may have prefetched more)
		vAssert(vAnd(len(req) >= len(reqBytes), vEqBytes(req[:len(reqBytes)], reqBytes)), "debug.upgrader_request_reported")
	}
}
