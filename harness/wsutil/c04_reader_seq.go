//go:build verif

package wsutil

import (
	"io"

	"github.com/gobwas/ws"
)

// C04_reader_seq: the streaming Reader delivers every message's opcode and exact payload and
// hands every interleaved control frame to OnIntermediate, for any chunking / buffer size.
func C04_reader_seq() {
	server := vChoose("side", 2) == 0
	k, mp, mode, B := vVariant()
	wire, items := vGenStream(server, k, mp, true)
	src := vNewSrc(wire, mode, "chunk")
	var inter []vItem
	rd := &Reader{Source: &src, State: vSide(server), CheckUTF8: true,
		OnIntermediate: func(h ws.Header, r io.Reader) error {
			p, err := vReadAllB(r, 16)
			if err != io.EOF && err != nil {
				return err
			}
			inter = append(inter, vItem{control: true, op: byte(h.OpCode), payload: p})
			return nil
		}}
	for _, it := range items {
		inter = nil
		h, err := rd.NextFrame()
		vAssert(err == nil, "seq.nextframe_ok")
		if err != nil {
			return
		}
		vAssert(byte(h.OpCode) == it.op, "seq.opcode")
		p, err := vReadAllB(rd, B)
		vAssert(err == io.EOF, "seq.eof_at_message_end")
		vAssert(vEqBytes(p, it.payload), "seq.payload")
		vAssert(len(inter) == len(it.inter), "seq.intermediate_count")
		if len(inter) == len(it.inter) {
			for i := range inter {
				vAssert(vAnd(inter[i].op == it.inter[i].op, vEqBytes(inter[i].payload, it.inter[i].payload)), "seq.intermediate_payload")
			}
		}
		vAssert(!rd.State.Fragmented(), "seq.not_fragmented_after_message")
		vTraceBytes("msg", p)
	}
	vAssert(src.pos == len(wire), "seq.all_consumed")
	_, err := rd.NextFrame()
	vAssert(err == io.EOF, "seq.clean_eof_between_messages")
}
