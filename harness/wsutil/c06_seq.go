//go:build verif

package wsutil

import (
	"github.com/gobwas/ws"
)

// C06_seq: bounded sequences of operations from a fresh writer of each constructor, ended by
// Flush: exactly one well-formed message carrying all accepted bytes in order.
func C06_seq() {
	server := vChoose("side", 2) == 0
	op := ws.OpCode(1 + vChoose("op", 2))
	dst := &vDst{failAt: -1}
	var w *Writer
	bufLen := 3
	switch vChoose("ctor", 4) {
	case 0:
		w = vMkWriter(dst, server, bufLen, op)
	case 1:
		w = NewWriterSize(dst, vSide(server), op, bufLen)
	case 2:
		w = NewWriterBufferSize(dst, vSide(server), op, bufLen+6)
		bufLen = w.Size()
	case 3:
		w = GetWriter(dst, vSide(server), op, bufLen+6)
		bufLen = w.Size()
	}
	if vChoose("noflush", 2) == 1 {
		w.DisableFlush()
	}
	noFlush := w.noFlush
	steps := 2 + vTier()
	var accepted []byte
	explicitFragments := 0
	for s := 0; s < steps; s++ {
		switch vChoose("kind", 4) {
		case 0:
			p := vBytes("p", []int{0, 1, 3, 4, 7}[vChoose("plen", 5)])
			k, err := w.Write(p)
			vAssert(vAnd(err == nil, k == len(p)), "seq.write_ok")
			accepted = append(accepted, p...)
		case 1:
			data := vBytes("p", []int{0, 2, 4}[vChoose("plen", 3)])
			src := vNewSrc(data, 0, "chunk")
			k, err := w.ReadFrom(&src)
			vAssert(vAnd(err == nil, int(k) == len(data)), "seq.readfrom_ok")
			accepted = append(accepted, data...)
		case 2:
			explicitFragments++
			vAssert(w.FlushFragment() == nil, "seq.flushfragment_ok")
		case 3:
			w.Grow(vChoose("grow", 9))
		}
		fs, ok := vParseFrames(dst.all)
		vAssert(ok, "seq.whole_frames_at_call_boundary")
		if noFlush && ok && explicitFragments == 0 {
			// with automatic flushing disabled plain writes send nothing until the final flush
			vAssert(len(fs) == 0, "seq.noflush_sends_nothing_before_flush")
		}
	}
	written := len(accepted) > 0 || w.dirty
	vAssert(w.Flush() == nil, "seq.flush_ok")
	fs, ok := vParseFrames(dst.all)
	vAssert(ok, "seq.whole_frames")
	if !ok {
		return
	}
	if !written {
		vAssert(len(fs) == 0, "seq.nothing_written_nothing_sent")
		return
	}
	vAssert(len(fs) >= 1, "seq.at_least_one_frame")
	if noFlush && explicitFragments == 0 {
		vAssert(len(fs) == 1, "seq.noflush_whole_message_is_one_frame")
	}
	var sent []byte
	for i, f := range fs {
		wantOp := byte(0)
		if i == 0 {
			wantOp = byte(op)
		}
		hdr := vAnd(f.op == wantOp, vAnd(f.rsv == vWantRsv(f.op), vAnd(f.masked == !server, f.fin == (i == len(fs)-1))))
		vAssert(hdr, "seq.frame_header")
		sent = append(sent, f.payload...)
	}
	vAssert(vEqBytes(sent, accepted), "seq.payload_is_accepted_bytes")
	// a second message after the flush starts with the configured opcode again
	w.Write([]byte{'z'})
	w.Flush()
	fs2, ok2 := vParseFrames(dst.all)
	vAssert(vAnd(ok2, len(fs2) == len(fs)+1), "seq.second_message_one_frame")
	if ok2 && len(fs2) == len(fs)+1 {
		l := fs2[len(fs2)-1]
		vAssert(vAnd(l.op == byte(op), vAnd(l.fin, vEqBytes(l.payload, []byte{'z'}))), "seq.second_message_header")
	}
}
