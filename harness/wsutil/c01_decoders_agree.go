//go:build verif

package wsutil

import (
	"github.com/gobwas/ws"
)

// C01_decoders_agree: ws.ReadHeader and the streaming reader's header parser agree with the
// RFC layout and with each other on every byte string.
func C01_decoders_agree() {
	S := vBytes("s", 14)
	c := vChoose("cut", 15)
	in := S[:c]
	s1 := &vSrc{data: in, name: "chunk1", whole: true}
	h1, e1 := ws.ReadHeader(s1)
	r := &Reader{}
	s2 := &vSrc{data: in, name: "chunk2", whole: true}
	h2, e2 := r.readHeader(s2)

	// reference decode (RFC 6455 §5.2)
	need := 2
	var l7 byte
	masked := false
	if c >= 2 {
		l7 = S[1] & 0x7f
		masked = S[1]&0x80 != 0
	}
	ext := 0
	if c >= 2 {
		if l7 == 126 {
			ext = 2
		} else if l7 == 127 {
			ext = 8
		}
		need = 2 + ext
		if masked {
			need += 4
		}
	}
	complete := c >= need
	vAssert((e1 == nil) == (e2 == nil), "agree.err")
	if !complete {
		vAssert(e1 != nil, "agree.incomplete_fails")
		return
	}
	var L uint64
	msb := false
	minimal := true
	switch ext {
	case 0:
		L = uint64(l7)
	case 2:
		L = uint64(S[2])<<8 | uint64(S[3])
		minimal = L > 125
	case 8:
		for i := 0; i < 8; i++ {
			L = L<<8 | uint64(S[2+i])
		}
		msb = S[2]&0x80 != 0
		minimal = L > 65535
	}
	if msb {
		vAssert(e1 != nil, "agree.msb_fails")
		return
	}
	if minimal {
		vAssert(e1 == nil, "agree.minimal_succeeds")
	}
	if e1 == nil && e2 == nil {
		same := vAnd(h1.Fin == h2.Fin, vAnd(h1.Rsv == h2.Rsv, vAnd(h1.OpCode == h2.OpCode, vAnd(h1.Masked == h2.Masked, vAnd(h1.Length == h2.Length, h1.Mask == h2.Mask)))))
		vAssert(same, "agree.same_fields")
		vAssert(s1.pos == s2.pos, "agree.same_consumed")
		vAssert(s1.pos == need, "agree.consumed_exact")
		rfc := vAnd(h1.Fin == (S[0]&0x80 != 0), vAnd(h1.Rsv == (S[0]>>4)&7, vAnd(byte(h1.OpCode) == S[0]&15, vAnd(h1.Masked == masked, uint64(h1.Length) == L))))
		vAssert(rfc, "agree.rfc_fields")
		if masked {
			o := 2 + ext
			vAssert(h1.Mask == [4]byte{S[o], S[o+1], S[o+2], S[o+3]}, "agree.rfc_mask")
		} else {
			vAssert(h1.Mask == [4]byte{}, "agree.nomask_zero")
		}
		vTrace("len", uint64(h1.Length))
	}
}
