//go:build verif

package wsutil

import (
	"github.com/gobwas/ws"
)

// C06_grow_thresholds: Grow with bytes already buffered, at totals around the 125/126 header
// threshold (and its client-side twin 249/250): buffered bytes are preserved and leave as the
// message payload.
func C06_grow_thresholds() {
	server := vChoose("side", 2) == 0
	op := ws.OpBinary
	dst := &vDst{failAt: -1}
	w := NewWriterSize(dst, vSide(server), op, []int{16, 60}[vChoose("size", 2)])
	b := []int{1, 25, 49}[vChoose("buffered", 3)]
	if b > w.Size() {
		b = w.Size()
	}
	totals := []int{124, 125, 126, 127, 248, 249, 250, 251}
	if vTier() > 0 {
		totals = append(totals, 65533, 65534, 65535, 65536, 65537)
	}
	total := totals[vChoose("total", len(totals))]
	old := vBytes("old", b)
	w.DisableFlush()
	k0, err := w.Write(old)
	vAssert(vAnd(err == nil, k0 == b), "grow.first_write")
	if vChoose("how", 2) == 0 {
		w.Grow(total - b)
		vAssert(w.Available() >= total-b, "grow.available")
	} else {
		// a plain write with flushing disabled grows the buffer itself
		rest := make([]byte, total-b)
		rest[0], rest[len(rest)-1] = vU8("r0"), vU8("r1")
		k1, err := w.Write(rest)
		vAssert(vAnd(err == nil, k1 == len(rest)), "grow.second_write")
		old = append(old, rest...)
	}
	vAssert(w.Buffered() == len(old), "grow.buffered_count")
	vAssert(vEqBytes(w.buf[:w.n], old), "grow.buffered_bytes_preserved")
	vAssert(len(w.raw)-len(w.buf) == reserve(w.state, len(w.raw)), "grow.header_space")
	vAssert(len(dst.calls) == 0, "grow.nothing_sent")
	vAssert(w.Flush() == nil, "grow.flush_ok")
	fs, ok := vParseFrames(dst.all)
	vAssert(vAnd(ok, len(fs) == 1), "grow.one_frame")
	if ok && len(fs) == 1 {
		vAssert(vAnd(fs[0].fin, vAnd(fs[0].op == byte(op), fs[0].masked == !server)), "grow.frame_header")
		vAssert(vEqBytes(fs[0].payload, old), "grow.payload_is_accepted_bytes")
	}
}
