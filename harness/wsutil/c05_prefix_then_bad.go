//go:build verif

package wsutil

import (
	"io"

	"github.com/gobwas/ws"
)

// C05_prefix_then_bad: a valid prefix is delivered exactly, then the first offending frame is
// reported; none of its payload is delivered.
func C05_prefix_then_bad() {
	server := vChoose("side", 2) == 0
	k := 1 + vTier()
	wire, items, frag, cur := vGenStreamX(server, k, 2, true, false)
	// one invalid frame, by kind
	bad := vFrame{fin: true, op: 2, masked: server, key: [4]byte{1, 2, 3, 4}, payload: vBytes("bad", 2)}
	switch vChoose("bad", 7) {
	case 0:
		bad.op = 3 + byte(vChoose("resv", 2))*8 // reserved opcode 3 or 0xb
	case 1:
		bad.op, bad.fin = 9, false // fragmented control
	case 2:
		bad.op, bad.payload = 9, make([]byte, 126) // oversized control
	case 3:
		bad.masked = !server // wrong mask bit
	case 4:
		bad.rsv = 1 + byte(vChoose("rsv", 7)) // rsv without extension
	case 5:
		if frag {
			bad.op = 1 + byte(vChoose("nested", 2)) // nested data frame
		} else {
			bad.op = 0 // stray continuation
		}
	case 6:
		bad.op = 8
		bad.fin = false
	}
	hs := 2
	if len(bad.payload) > 125 {
		hs = 4
	}
	if bad.masked {
		hs += 4
	}
	prefixLen := len(wire)
	wire = append(wire, vEncode(bad)...)
	src := vNewSrc(wire, vChoose("mode", 2), "chunk")
	rd := &Reader{Source: &src, State: vSide(server), CheckUTF8: true}
	for _, it := range items {
		h, err := rd.NextFrame()
		vAssert(err == nil, "ptb.prefix_ok")
		if err != nil {
			return
		}
		p, err := vReadAllB(rd, 16)
		vAssert(vAnd(err == io.EOF, vAnd(byte(h.OpCode) == it.op, vEqBytes(p, it.payload))), "ptb.prefix_delivered")
	}
	var got []byte
	var err error
	if frag {
		// an open fragmented message: its first frame header, then reads hit the bad frame
		var h ws.Header
		h, err = rd.NextFrame()
		vAssert(vAnd(err == nil, byte(h.OpCode) == cur.op), "ptb.open_first")
		got, err = vReadAllB(rd, 16)
		vAssert(vEqBytes(got, cur.payload), "ptb.open_payload_before_bad")
	} else {
		_, err = rd.NextFrame()
	}
	_, isProto := err.(ws.ProtocolError)
	vAssert(isProto, "ptb.protocol_error")
	vAssert(src.pos == prefixLen+hs, "ptb.no_bad_payload_consumed")
}
