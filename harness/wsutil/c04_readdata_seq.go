//go:build verif

package wsutil

import (
	"io"

	"github.com/gobwas/ws"
)

// C04_readdata_seq: readData (behind ReadData/ReadClientText/...) returns the next wanted data
// message, skips unwanted ones without leaking their bytes, answers pings in order.
func C04_readdata_seq() {
	server := vChoose("side", 2) == 0
	k, mp, mode, _ := vVariant()
	wire, items := vGenStream(server, k, mp, true)
	rw := &vRW{vSrc: vNewSrc(wire, mode, "chunk")}
	want := ws.OpCode(1 + vChoose("want", 3)) // text, binary, text|binary
	var pings [][]byte
	i := 0
	for i < len(items) {
		// expected: skip to the next wanted data message
		j := i
		for j < len(items) {
			it := items[j]
			if it.control {
				if it.op == 9 {
					pings = append(pings, it.payload)
				}
				j++
				continue
			}
			for _, c := range it.inter {
				if c.op == 9 {
					pings = append(pings, c.payload)
				}
			}
			if ws.OpCode(it.op)&want != 0 {
				break
			}
			j++
		}
		p, op, err := readData(rw, vSide(server), want)
		if j == len(items) { // nothing wanted remains: stream ends cleanly between messages
			vAssert(err == io.EOF, "rd.eof_when_exhausted")
			break
		}
		vAssert(err == nil, "rd.ok")
		if err != nil {
			return
		}
		vAssert(byte(op) == items[j].op, "rd.opcode")
		vAssert(vEqBytes(p, items[j].payload), "rd.payload")
		vTraceBytes("msg", p)
		i = j + 1
	}
	// replies: exactly one pong per ping, same payload, in order, valid for the peer
	fs, ok := vParseFrames(rw.out)
	vAssert(ok, "rd.replies_whole_frames")
	vAssert(len(fs) == len(pings), "rd.reply_count")
	if ok && len(fs) == len(pings) {
		for n, f := range fs {
			good := vAnd(f.op == 10, vAnd(f.fin, vAnd(f.rsv == 0, f.masked == !server)))
			vAssert(good, "rd.reply_header")
			vAssert(vEqBytes(f.payload, pings[n]), "rd.reply_payload")
		}
	}
}
