//go:build verif

package wsutil

// C18_small_resets: CipherReader/CipherWriter/UTF8Reader Reset equal fresh instances.
func C18_small_resets() {
	key := [4]byte{vU8("k0"), vU8("k1"), vU8("k2"), vU8("k3")}
	old := [4]byte{vU8("o0"), vU8("o1"), vU8("o2"), vU8("o3")}
	src := &vChunkSrc{}
	switch vChoose("which", 3) {
	case 0:
		cr := &CipherReader{r: nil, mask: old, pos: vInt("pos")}
		cr.Reset(src, key)
		fresh := NewCipherReader(src, key)
		vAssert(vAnd(cr.mask == fresh.mask, vAnd(cr.pos == fresh.pos, cr.r == fresh.r)), "small.cipherreader_as_new")
	case 1:
		dst := &vDst{failAt: -1}
		cw := &CipherWriter{w: nil, mask: old, pos: vInt("pos")}
		cw.Reset(dst, key)
		fresh := NewCipherWriter(dst, key)
		vAssert(vAnd(cw.mask == fresh.mask, vAnd(cw.pos == fresh.pos, cw.w == fresh.w)), "small.cipherwriter_as_new")
	case 2:
		u := &UTF8Reader{state: vU32("state"), codep: vU32("codep"), accepted: int(vU8("accepted"))}
		u.Reset(src)
		fresh := NewUTF8Reader(src)
		vAssert(vAnd(u.state == fresh.state, u.codep == fresh.codep), "small.utf8reader_state_as_new")
		vAssert(u.Accepted() == fresh.Accepted(), "small.utf8reader_accepted_as_new")
		vAssert(vAnd(u.Valid() == fresh.Valid(), u.Source == fresh.Source), "small.utf8reader_valid_as_new")
	}
}
