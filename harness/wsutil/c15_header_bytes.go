//go:build verif

package wsutil

import (
	"github.com/gobwas/ws"
)

// C15_header_bytes: the two header decoders on 14 fully arbitrary bytes with any cut.
func C15_header_bytes() {
	S := vBytes("s", 14)
	cut := vChoose("cut", 15)
	src := &vCutSrc{data: S, cut: cut, useErr: vChoose("kind", 2) == 1}
	if vChoose("which", 2) == 0 {
		ws.ReadHeader(src)
	} else {
		st := ws.State(vU8("state"))
		vAssume(st <= 7) // not fragmented: NextFrame reads no payload
		rd := &Reader{Source: src, State: st, SkipHeaderCheck: vBool("skip"), MaxFrameSize: int64(vU64("max"))}
		before := src.pos
		_, err := rd.NextFrame()
		_ = before
		if err == nil {
			vAssert(src.pos <= 14, "header.no_read_ahead")
		}
	}
	vAssert(true, "header.returned")
}
