//go:build verif

package wsutil

import (
	"io"

	"github.com/gobwas/ws"
)

func vMkWriter(dst io.Writer, server bool, bufLen int, op ws.OpCode) *Writer {
	off := 2
	if !server {
		off = 6
	}
	return NewWriterBuffer(dst, vSide(server), op, make([]byte, off+bufLen))
}
