//go:build verif

package wsutil

import (
	"io"

	"github.com/gobwas/ws"
)

// reserved bits the installed extension (if any) sets on first / continuation frames
var vRsvFirst, vRsvCont byte

// vWantRsv: the reserved bits a frame with this opcode must carry.
func vWantRsv(op byte) byte {
	if op == 0 {
		return vRsvCont
	}
	return vRsvFirst
}

func vMkWriter(dst io.Writer, server bool, bufLen int, op ws.OpCode) *Writer {
	off := 2
	if !server {
		off = 6
	}
	// the state as applications hold it: the side bit alone or together with the flags that come
	// with negotiated extensions / an open fragmented message on the same connection
	st := vSide(server) | []ws.State{0, ws.StateExtended, ws.StateExtended | ws.StateFragmented}[vChoose("stateflags", 3)]
	w := NewWriterBuffer(dst, st, op, make([]byte, off+bufLen))
	// an extension that sets reserved bits: vRsvFirst on the first frame of a message (the frame
	// carrying the message opcode), vRsvCont on continuation frames (0/0 = no extension installed)
	vRsvFirst, vRsvCont = 0, 0
	if vChoose("ext", 2) == 1 {
		vRsvFirst, vRsvCont = vU8("rsvfirst")&7, vU8("rsvcont")&7
		a, b := vRsvFirst, vRsvCont
		w.SetExtensions(SendExtensionFunc(func(h ws.Header) (ws.Header, error) {
			if h.OpCode == ws.OpContinuation {
				h.Rsv = b
			} else {
				h.Rsv = a
			}
			return h, nil
		}))
	}
	return w
}

// vSetIntLike / vGetIntLike: write and read an integer field whatever integer type it has (the
// harnesses keep compiling — and keep checking the arithmetic — if a counter is narrowed).
func vSetIntLike(dst interface{}, v int) {
	switch p := dst.(type) {
	case *int:
		*p = v
	case *int64:
		*p = int64(v)
	case *int32:
		*p = int32(v)
	case *int16:
		*p = int16(v)
	case *int8:
		*p = int8(v)
	case *uint:
		*p = uint(v)
	case *uint64:
		*p = uint64(v)
	case *uint32:
		*p = uint32(v)
	case *uint16:
		*p = uint16(v)
	case *uint8:
		*p = uint8(v)
	}
}

func vGetIntLike(v interface{}) int {
	switch x := v.(type) {
	case int:
		return x
	case int64:
		return int(x)
	case int32:
		return int(x)
	case int16:
		return int(x)
	case int8:
		return int(x)
	case uint:
		return int(x)
	case uint64:
		return int(x)
	case uint32:
		return int(x)
	case uint16:
		return int(x)
	case uint8:
		return int(x)
	}
	return -1
}
