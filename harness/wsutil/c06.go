//go:build verif

package wsutil

import (
	"io"

	"github.com/gobwas/ws"
)

// C06_size_exact: for every requested size n in [1, 2^40] on either side the header space
// reserved for a buffer of n+headerSize(n) bytes is exactly headerSize(n), i.e.
// NewWriterSize(..., n).Size() == n across the 125/126 and 65535/65536 thresholds.
func C06_size_exact() {
	n := vInt("n")
	vAssume(vAnd(n >= 1, n <= 1<<40))
	st := vSide(vBool("server"))
	hs := headerSize(st, n)
	want := 2
	if n > 125 {
		want = 4
	}
	if n > 65535 {
		want = 10
	}
	if st.ClientSide() {
		want += 4
	}
	vAssert(hs == want, "size.headersize_rfc")
	vAssert(reserve(st, n+hs) == hs, "size.reserve_matches_headersize")
	// monotone: a bigger raw buffer never reserves less
	m := vInt("m")
	vAssume(vAnd(m >= n, m <= 1<<41))
	vAssert(reserve(st, m) >= reserve(st, n), "size.reserve_monotone")
	// header space always suffices for any payload that fits behind it
	raw := vInt("raw")
	vAssume(vAnd(raw >= 3, raw <= 1<<40))
	off := reserve(st, raw)
	vAssume(raw > off)
	pl := vInt("pl")
	vAssume(vAnd(pl >= 0, pl <= raw-off))
	vAssert(headerSize(st, pl) <= off, "size.header_fits_reserved_space")
}

func vMkWriter(dst io.Writer, server bool, bufLen int, op ws.OpCode) *Writer {
	off := 2
	if !server {
		off = 6
	}
	return NewWriterBuffer(dst, vSide(server), op, make([]byte, off+bufLen))
}

// C06_op_step (inductive step): one arbitrary operation from an arbitrary valid writer state.
func C06_op_step() {
	server := vChoose("side", 2) == 0
	sizes := []int{1, 2, 5}
	if vTier() > 0 {
		sizes = []int{1, 2, 3, 5, 8}
	}
	bufLen := sizes[vChoose("buflen", len(sizes))]
	op := ws.OpCode(1 + vChoose("op", 2))
	dst := &vDst{failAt: -1}
	w := vMkWriter(dst, server, bufLen, op)
	// arbitrary pre-state
	n := vChoose("n", bufLen+1)
	old := vBytes("old", n)
	copy(w.buf, old)
	w.n = n
	if vChoose("fseqpos", 2) == 1 {
		w.fseq = vInt("fseq")
		vAssume(vAnd(w.fseq > 0, w.fseq < 1<<40))
	}
	w.dirty = vBool("dirty")
	vAssume(vImplies(w.fseq > 0, w.dirty))
	vAssume(vImplies(n > 0, w.dirty)) // bytes get into the buffer only through Write/ReadFrom, which mark it dirty
	w.noFlush = vBool("noflush")
	fseq0, dirty0, noFlush := w.fseq, w.dirty, w.noFlush
	size0 := w.Size()

	maxP := 2*bufLen + 1
	// write sizes at the boundaries relative to the free space A = bufLen-n:
	// 0, 1, A-1, A, A+1, bufLen, bufLen+1, 2*bufLen+1 (deduplicated); quick: all 0..maxP for small buffers
	var wlens []int
	if bufLen <= 2 {
		for i := 0; i <= maxP; i++ {
			wlens = append(wlens, i)
		}
	} else {
		seen := map[int]bool{}
		for _, v := range []int{0, 1, bufLen - n - 1, bufLen - n, bufLen - n + 1, bufLen, bufLen + 1, maxP} {
			if v >= 0 && !seen[v] {
				seen[v] = true
				wlens = append(wlens, v)
			}
		}
	}
	pickLen := func() int { return wlens[vChoose("plen", len(wlens))] }
	var accepted []byte
	isFlush := false
	kind := vChoose("kind", 6)
	switch kind {
	case 0: // Write
		p := vBytes("p", pickLen())
		keep := append([]byte{}, p...)
		k, err := w.Write(p)
		vAssert(vAnd(err == nil, k == len(p)), "step.write_accepts_all")
		vAssert(vEqBytes(p, keep), "step.write_caller_intact")
		accepted = keep
		if len(p) <= bufLen-n {
			vAssert(len(dst.calls) == 0, "step.write_that_fits_emits_nothing")
		}
		if noFlush {
			vAssert(len(dst.calls) == 0, "step.noflush_write_emits_nothing")
		}
		vAssert(w.dirty, "step.write_marks_dirty")
	case 1: // ReadFrom
		data := vBytes("p", pickLen())
		src := vNewSrc(data, vChoose("mode", 2), "chunk")
		k, err := w.ReadFrom(&src)
		vAssert(vAnd(err == nil, int(k) == len(data)), "step.readfrom_accepts_all")
		accepted = data
		if noFlush {
			vAssert(len(dst.calls) == 0, "step.noflush_readfrom_emits_nothing")
		}
		vAssert(w.dirty, "step.readfrom_marks_dirty")
	case 2: // WriteThrough
		p := vBytes("p", pickLen())
		keep := append([]byte{}, p...)
		k, err := w.WriteThrough(p)
		vAssert(vEqBytes(p, keep), "step.writethrough_caller_intact")
		if n != 0 {
			vAssert(vAnd(err == ErrNotEmpty, vAnd(k == 0, len(dst.calls) == 0)), "step.writethrough_refuses_nonempty")
		} else {
			vAssert(vAnd(err == nil, k == len(p)), "step.writethrough_accepts_all")
			accepted = keep
			fs, ok := vParseFrames(dst.all)
			vAssert(vAnd(ok, len(fs) == 1), "step.writethrough_one_frame")
		}
	case 3: // FlushFragment
		err := w.FlushFragment()
		vAssert(err == nil, "step.flushfragment_ok")
		if n == 0 {
			vAssert(len(dst.calls) == 0, "step.flushfragment_empty_emits_nothing")
		}
	case 4: // Flush
		isFlush = true
		err := w.Flush()
		vAssert(err == nil, "step.flush_ok")
		if !dirty0 {
			vAssert(len(dst.calls) == 0, "step.flush_with_nothing_written_emits_nothing")
		} else {
			fs, ok := vParseFrames(dst.all)
			vAssert(vAnd(ok, len(fs) == 1), "step.flush_one_frame")
		}
		vAssert(vAnd(w.fseq == 0, vAnd(!w.dirty, w.n == 0)), "step.flush_resets_message_state")
	case 5: // Grow
		k := pickLen() * (1 + vChoose("growx", 2))
		w.Grow(k)
		vAssert(len(dst.calls) == 0, "step.grow_emits_nothing")
		vAssert(w.Available() >= k, "step.grow_available")
		vAssert(w.Size() >= size0, "step.grow_never_shrinks")
		vAssert(len(w.raw)-len(w.buf) == reserve(w.state, len(w.raw)), "step.grow_reserves_header_space")
	}
	// the wire: whole frames, correct headers
	fs, ok := vParseFrames(dst.all)
	vAssert(ok, "step.whole_frames")
	if !ok {
		return
	}
	var sent []byte
	for i, f := range fs {
		wantOp := byte(0)
		if fseq0 == 0 && i == 0 {
			wantOp = byte(op)
		}
		hdr := vAnd(f.op == wantOp, vAnd(f.rsv == 0, f.masked == !server))
		hdr = vAnd(hdr, f.fin == (isFlush && i == len(fs)-1))
		vAssert(hdr, "step.frame_header")
		sent = append(sent, f.payload...)
	}
	// no byte lost, none invented, order kept
	all := append(append([]byte{}, old...), accepted...)
	now := append(append([]byte{}, sent...), w.buf[:w.n]...)
	vAssert(vEqBytes(now, all), "step.bytes_conserved")
	if !isFlush {
		vAssert(w.fseq == fseq0+len(fs), "step.fseq_counts_frames")
		vAssert(vImplies(w.fseq > 0, w.dirty), "step.invariant_fseq_dirty")
		vAssert(vImplies(w.n > 0, w.dirty), "step.invariant_n_dirty")
	}
	vAssert(w.noFlush == noFlush, "step.noflush_kept")
	vAssert(w.err == nil, "step.no_sticky_error")
	vTraceBytes("sent", sent)
}

// C06_seq: bounded sequences of operations from a fresh writer of each constructor, ended by
// Flush: exactly one well-formed message carrying all accepted bytes in order.
func C06_seq() {
	server := vChoose("side", 2) == 0
	op := ws.OpCode(1 + vChoose("op", 2))
	dst := &vDst{failAt: -1}
	var w *Writer
	bufLen := 3
	switch vChoose("ctor", 4) {
	case 0:
		w = vMkWriter(dst, server, bufLen, op)
	case 1:
		w = NewWriterSize(dst, vSide(server), op, bufLen)
	case 2:
		w = NewWriterBufferSize(dst, vSide(server), op, bufLen+6)
		bufLen = w.Size()
	case 3:
		w = GetWriter(dst, vSide(server), op, bufLen+6)
		bufLen = w.Size()
	}
	if vChoose("noflush", 2) == 1 {
		w.DisableFlush()
	}
	noFlush := w.noFlush
	steps := 2 + vTier()
	var accepted []byte
	for s := 0; s < steps; s++ {
		switch vChoose("kind", 4) {
		case 0:
			p := vBytes("p", []int{0, 1, 3, 4, 7}[vChoose("plen", 5)])
			k, err := w.Write(p)
			vAssert(vAnd(err == nil, k == len(p)), "seq.write_ok")
			accepted = append(accepted, p...)
		case 1:
			data := vBytes("p", []int{0, 2, 4}[vChoose("plen", 3)])
			src := vNewSrc(data, 0, "chunk")
			k, err := w.ReadFrom(&src)
			vAssert(vAnd(err == nil, int(k) == len(data)), "seq.readfrom_ok")
			accepted = append(accepted, data...)
		case 2:
			vAssert(w.FlushFragment() == nil, "seq.flushfragment_ok")
		case 3:
			w.Grow(vChoose("grow", 9))
		}
		fs, ok := vParseFrames(dst.all)
		vAssert(ok, "seq.whole_frames_at_call_boundary")
		if noFlush && ok {
			explicit := 0
			_ = explicit
			_ = fs
		}
	}
	written := len(accepted) > 0 || w.dirty
	vAssert(w.Flush() == nil, "seq.flush_ok")
	fs, ok := vParseFrames(dst.all)
	vAssert(ok, "seq.whole_frames")
	if !ok {
		return
	}
	if !written {
		vAssert(len(fs) == 0, "seq.nothing_written_nothing_sent")
		return
	}
	vAssert(len(fs) >= 1, "seq.at_least_one_frame")
	var sent []byte
	for i, f := range fs {
		wantOp := byte(0)
		if i == 0 {
			wantOp = byte(op)
		}
		hdr := vAnd(f.op == wantOp, vAnd(f.rsv == 0, vAnd(f.masked == !server, f.fin == (i == len(fs)-1))))
		vAssert(hdr, "seq.frame_header")
		sent = append(sent, f.payload...)
	}
	vAssert(vEqBytes(sent, accepted), "seq.payload_is_accepted_bytes")
	// a second message after the flush starts with the configured opcode again
	w.Write([]byte{'z'})
	w.Flush()
	fs2, ok2 := vParseFrames(dst.all)
	vAssert(vAnd(ok2, len(fs2) == len(fs)+1), "seq.second_message_one_frame")
	if ok2 && len(fs2) == len(fs)+1 {
		l := fs2[len(fs2)-1]
		vAssert(vAnd(l.op == byte(op), vAnd(l.fin, vEqBytes(l.payload, []byte{'z'}))), "seq.second_message_header")
	}
}

// C06_helpers: WriteMessage and friends emit exactly one final frame with the payload.
func C06_helpers() {
	server := vChoose("side", 2) == 0
	op := ws.OpCode([]byte{1, 2, 9}[vChoose("op", 3)])
	p := vBytes("p", []int{0, 1, 5, 126}[vChoose("plen", 4)])
	keep := append([]byte{}, p...)
	dst := &vDst{failAt: -1}
	vAssert(WriteMessage(dst, vSide(server), op, p) == nil, "helpers.ok")
	vAssert(vEqBytes(p, keep), "helpers.caller_intact")
	fs, ok := vParseFrames(dst.all)
	vAssert(vAnd(ok, len(fs) == 1), "helpers.one_frame")
	if ok && len(fs) == 1 {
		f := fs[0]
		vAssert(vAnd(f.fin, vAnd(f.op == byte(op), vAnd(f.rsv == 0, f.masked == !server))), "helpers.header")
		vAssert(vEqBytes(f.payload, keep), "helpers.payload")
	}
}

// C06_grow_thresholds: Grow with bytes already buffered, at totals around the 125/126 header
// threshold (and its client-side twin 249/250): buffered bytes are preserved and leave as the
// message payload.
func C06_grow_thresholds() {
	server := vChoose("side", 2) == 0
	op := ws.OpBinary
	dst := &vDst{failAt: -1}
	w := NewWriterSize(dst, vSide(server), op, []int{16, 60}[vChoose("size", 2)])
	b := []int{1, 25, 49}[vChoose("buffered", 3)]
	if b > w.Size() {
		b = w.Size()
	}
	totals := []int{124, 125, 126, 127, 248, 249, 250, 251}
	if vTier() > 0 {
		totals = append(totals, 65533, 65534, 65535, 65536, 65537)
	}
	total := totals[vChoose("total", len(totals))]
	old := vBytes("old", b)
	w.DisableFlush()
	k0, err := w.Write(old)
	vAssert(vAnd(err == nil, k0 == b), "grow.first_write")
	if vChoose("how", 2) == 0 {
		w.Grow(total - b)
		vAssert(w.Available() >= total-b, "grow.available")
	} else {
		// a plain write with flushing disabled grows the buffer itself
		rest := make([]byte, total-b)
		rest[0], rest[len(rest)-1] = vU8("r0"), vU8("r1")
		k1, err := w.Write(rest)
		vAssert(vAnd(err == nil, k1 == len(rest)), "grow.second_write")
		old = append(old, rest...)
	}
	vAssert(w.Buffered() == len(old), "grow.buffered_count")
	vAssert(vEqBytes(w.buf[:w.n], old), "grow.buffered_bytes_preserved")
	vAssert(len(w.raw)-len(w.buf) == reserve(w.state, len(w.raw)), "grow.header_space")
	vAssert(len(dst.calls) == 0, "grow.nothing_sent")
	vAssert(w.Flush() == nil, "grow.flush_ok")
	fs, ok := vParseFrames(dst.all)
	vAssert(vAnd(ok, len(fs) == 1), "grow.one_frame")
	if ok && len(fs) == 1 {
		vAssert(vAnd(fs[0].fin, vAnd(fs[0].op == byte(op), fs[0].masked == !server)), "grow.frame_header")
		vAssert(vEqBytes(fs[0].payload, old), "grow.payload_is_accepted_bytes")
	}
}
