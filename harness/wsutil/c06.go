//go:build verif

package wsutil

import (
	"io"

	"github.com/gobwas/ws"
)

// reserved bits the installed extension (if any) sets on first / continuation frames
var vRsvFirst, vRsvCont byte

// vWantRsv: the reserved bits a frame with this opcode must carry.
func vWantRsv(op byte) byte {
	if op == 0 {
		return vRsvCont
	}
	return vRsvFirst
}

func vMkWriter(dst io.Writer, server bool, bufLen int, op ws.OpCode) *Writer {
	off := 2
	if !server {
		off = 6
	}
	// the state as applications hold it: the side bit alone or together with the flags that come
	// with negotiated extensions / an open fragmented message on the same connection
	st := vSide(server) | []ws.State{0, ws.StateExtended, ws.StateExtended | ws.StateFragmented}[vChoose("stateflags", 3)]
	w := NewWriterBuffer(dst, st, op, make([]byte, off+bufLen))
	// an extension that sets reserved bits: vRsvFirst on the first frame of a message (the frame
	// carrying the message opcode), vRsvCont on continuation frames (0/0 = no extension installed)
	vRsvFirst, vRsvCont = 0, 0
	if vChoose("ext", 2) == 1 {
		vRsvFirst, vRsvCont = vU8("rsvfirst")&7, vU8("rsvcont")&7
		a, b := vRsvFirst, vRsvCont
		w.SetExtensions(SendExtensionFunc(func(h ws.Header) (ws.Header, error) {
			if h.OpCode == ws.OpContinuation {
				h.Rsv = b
			} else {
				h.Rsv = a
			}
			return h, nil
		}))
	}
	return w
}
