//go:build verif

package wsutil

import (
	"io"

	"github.com/gobwas/ws"
)

func vMkWriter(dst io.Writer, server bool, bufLen int, op ws.OpCode) *Writer {
	off := 2
	if !server {
		off = 6
	}
	// the state as applications hold it: the side bit alone or together with the flags that come
	// with negotiated extensions / an open fragmented message on the same connection
	st := vSide(server) | []ws.State{0, ws.StateExtended, ws.StateExtended | ws.StateFragmented}[vChoose("stateflags", 3)]
	return NewWriterBuffer(dst, st, op, make([]byte, off+bufLen))
}
