//go:build verif

package wsutil

// vVariant picks one of three bounded sub-spaces (pairwise rather than full product):
//
//	0: stream structure  — k frames, payload 0..2, whole reads, 16-byte caller buffer
//	1: transport chunking — k-1 frames, chunk mode {1 byte, nondeterministic all/1/2 per read}
//	2: caller buffer size — k-1 frames, whole reads, buffer {1,2}
func vVariant() (k, maxPayload, mode, B int) {
	k = 3
	if vTier() > 0 {
		k = 4
	}
	nvar := 3
	if vTier() > 0 {
		nvar = 4
	}
	switch vChoose("variant", nvar) {
	case 3: // thorough only: per-read nondeterministic chunking (all / 1 / 2 bytes) on 2-frame streams
		return 2, 2, 2, 16
	case 0:
		if vTier() > 0 {
			return k, 1, 0, 16 // 4 frames with payloads 0..1 (3 frames with 0..2 in the quick tier)
		}
		return k, 2, 0, 16
	case 1:
		return k - 1, 2, []int{1, 3, 4}[vChoose("mode", 3)], 16
	default:
		return k - 1, 2, 0, 1 + vChoose("B", 2)
	}
}
