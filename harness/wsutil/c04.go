//go:build verif

package wsutil

import (
	"io"

	"github.com/gobwas/ws"
)

// vVariant picks one of three bounded sub-spaces (pairwise rather than full product):
//
//	0: stream structure  — k frames, payload 0..2, whole reads, 16-byte caller buffer
//	1: transport chunking — k-1 frames, chunk mode {1 byte, nondeterministic all/1/2 per read}
//	2: caller buffer size — k-1 frames, whole reads, buffer {1,2}
func vVariant() (k, maxPayload, mode, B int) {
	k = 3
	if vTier() > 0 {
		k = 4
	}
	switch vChoose("variant", 3) {
	case 0:
		return k, 2, 0, 16
	case 1:
		return k - 1, 2, 1 + vChoose("mode", 1+vTier()), 16
	default:
		return k - 1, 2, 0, 1 + vChoose("B", 2)
	}
}

// C04_reader_seq: the streaming Reader delivers every message's opcode and exact payload and
// hands every interleaved control frame to OnIntermediate, for any chunking / buffer size.
func C04_reader_seq() {
	server := vChoose("side", 2) == 0
	k, mp, mode, B := vVariant()
	wire, items := vGenStream(server, k, mp, true)
	src := vNewSrc(wire, mode, "chunk")
	var inter []vItem
	rd := &Reader{Source: &src, State: vSide(server), CheckUTF8: true,
		OnIntermediate: func(h ws.Header, r io.Reader) error {
			p, err := vReadAllB(r, 16)
			if err != io.EOF && err != nil {
				return err
			}
			inter = append(inter, vItem{control: true, op: byte(h.OpCode), payload: p})
			return nil
		}}
	for _, it := range items {
		inter = nil
		h, err := rd.NextFrame()
		vAssert(err == nil, "seq.nextframe_ok")
		if err != nil {
			return
		}
		vAssert(byte(h.OpCode) == it.op, "seq.opcode")
		p, err := vReadAllB(rd, B)
		vAssert(err == io.EOF, "seq.eof_at_message_end")
		vAssert(vEqBytes(p, it.payload), "seq.payload")
		vAssert(len(inter) == len(it.inter), "seq.intermediate_count")
		if len(inter) == len(it.inter) {
			for i := range inter {
				vAssert(vAnd(inter[i].op == it.inter[i].op, vEqBytes(inter[i].payload, it.inter[i].payload)), "seq.intermediate_payload")
			}
		}
		vAssert(!rd.State.Fragmented(), "seq.not_fragmented_after_message")
		vTraceBytes("msg", p)
	}
	vAssert(src.pos == len(wire), "seq.all_consumed")
	_, err := rd.NextFrame()
	vAssert(err == io.EOF, "seq.clean_eof_between_messages")
}

// C04_readmessage_seq: ReadMessage returns each top-level item (with intermediates first).
func C04_readmessage_seq() {
	server := vChoose("side", 2) == 0
	k, mp, mode, _ := vVariant()
	wire, items := vGenStream(server, k, mp, true)
	src := vNewSrc(wire, mode, "chunk")
	for _, it := range items {
		ms, err := ReadMessage(&src, vSide(server), nil)
		vAssert(err == nil, "rm.ok")
		if err != nil {
			return
		}
		vAssert(len(ms) == len(it.inter)+1, "rm.count")
		if len(ms) != len(it.inter)+1 {
			return
		}
		for i, c := range it.inter {
			vAssert(vAnd(byte(ms[i].OpCode) == c.op, vEqBytes(ms[i].Payload, c.payload)), "rm.intermediate")
		}
		last := ms[len(ms)-1]
		vAssert(byte(last.OpCode) == it.op, "rm.opcode")
		vAssert(vEqBytes(last.Payload, it.payload), "rm.payload")
		vTraceBytes("msg", last.Payload)
	}
	vAssert(src.pos == len(wire), "rm.all_consumed")
}

// C04_readdata_seq: readData (behind ReadData/ReadClientText/...) returns the next wanted data
// message, skips unwanted ones without leaking their bytes, answers pings in order.
func C04_readdata_seq() {
	server := vChoose("side", 2) == 0
	k, mp, mode, _ := vVariant()
	wire, items := vGenStream(server, k, mp, true)
	rw := &vRW{vSrc: vNewSrc(wire, mode, "chunk")}
	want := ws.OpCode(1 + vChoose("want", 3)) // text, binary, text|binary
	var pings [][]byte
	i := 0
	for i < len(items) {
		// expected: skip to the next wanted data message
		j := i
		for j < len(items) {
			it := items[j]
			if it.control {
				if it.op == 9 {
					pings = append(pings, it.payload)
				}
				j++
				continue
			}
			for _, c := range it.inter {
				if c.op == 9 {
					pings = append(pings, c.payload)
				}
			}
			if ws.OpCode(it.op)&want != 0 {
				break
			}
			j++
		}
		p, op, err := readData(rw, vSide(server), want)
		if j == len(items) { // nothing wanted remains: stream ends cleanly between messages
			vAssert(err == io.EOF, "rd.eof_when_exhausted")
			break
		}
		vAssert(err == nil, "rd.ok")
		if err != nil {
			return
		}
		vAssert(byte(op) == items[j].op, "rd.opcode")
		vAssert(vEqBytes(p, items[j].payload), "rd.payload")
		vTraceBytes("msg", p)
		i = j + 1
	}
	// replies: exactly one pong per ping, same payload, in order, valid for the peer
	fs, ok := vParseFrames(rw.out)
	vAssert(ok, "rd.replies_whole_frames")
	vAssert(len(fs) == len(pings), "rd.reply_count")
	if ok && len(fs) == len(pings) {
		for n, f := range fs {
			good := vAnd(f.op == 10, vAnd(f.fin, vAnd(f.rsv == 0, f.masked == !server)))
			vAssert(good, "rd.reply_header")
			vAssert(vEqBytes(f.payload, pings[n]), "rd.reply_payload")
		}
	}
}

// C04_nextreader_discard: NextReader + draining, and Reader.Discard across fragments with
// interleaved control frames; the next message starts exactly after the discarded one.
func C04_nextreader_discard() {
	server := vChoose("side", 2) == 0
	k, mp, mode, _ := vVariant()
	wire, items := vGenStream(server, k, mp, true)
	src := vNewSrc(wire, mode, "chunk")
	if vChoose("api", 2) == 0 {
		// NextReader reads the first frame; draining gives the first item
		h, r, err := NextReader(&src, vSide(server))
		vAssert(err == nil, "nr.ok")
		if err != nil {
			return
		}
		vAssert(byte(h.OpCode) == items[0].op, "nr.opcode")
		p, err := vReadAllB(r, 16)
		vAssert(err == io.EOF, "nr.eof")
		vAssert(vEqBytes(p, items[0].payload), "nr.payload")
		return
	}
	rd := &Reader{Source: &src, State: vSide(server), CheckUTF8: true}
	nint := 0
	rd.OnIntermediate = func(h ws.Header, r io.Reader) error { nint++; return nil }
	for n, it := range items {
		h, err := rd.NextFrame()
		vAssert(err == nil, "disc.nextframe_ok")
		if err != nil {
			return
		}
		vAssert(byte(h.OpCode) == it.op, "disc.opcode")
		if n%2 == 0 {
			vAssert(rd.Discard() == nil, "disc.discard_ok")
		} else {
			p, err := vReadAllB(rd, 16)
			vAssert(err == io.EOF, "disc.eof")
			vAssert(vEqBytes(p, it.payload), "disc.payload_after_discard")
		}
		vAssert(!rd.State.Fragmented(), "disc.not_fragmented")
	}
	vAssert(src.pos == len(wire), "disc.all_consumed")
}
