//go:build verif

package wsutil

import (
	"io"

	"github.com/gobwas/ws"
)

// C15_frame_bytes: arbitrary bytes as frames at every decoding entry point: a value or an
// error, never a panic, never a loop without progress (unwinding bound), for any cut.
func C15_frame_bytes() {
	S := vArbFrames()
	n := len(S)
	iters := 1 + vTier()
	cuts := []int{n, 1, 3, 5}
	if vTier() > 0 {
		cuts = []int{n, 0, 1, 2, 3, 4, 5, 7, 9, 11, 13}
	}
	cut := cuts[vChoose("cut", len(cuts))]
	if cut > n {
		cut = n
	}
	server := vChoose("side", 2) == 0
	mk := func() *vCutRW {
		return &vCutRW{vCutSrc: vCutSrc{data: S, cut: cut, useErr: false}}
	}
	switch vChoose("entry", 5) {
	case 0:
		ws.ReadFrame(mk())
	case 1:
		cfg := vChoose("cfg", 3)
		rd := &Reader{Source: mk(), State: vSide(server), CheckUTF8: cfg == 0, SkipHeaderCheck: cfg == 1}
		if cfg == 2 {
			rd.MaxFrameSize = 4
		}
		rd.OnIntermediate = func(h ws.Header, r io.Reader) error {
			_, err := vReadAllB(r, 16)
			if err == io.EOF {
				return nil
			}
			return err
		}
		for i := 0; i < iters; i++ {
			_, err := rd.NextFrame()
			if err != nil {
				break
			}
			if _, err := vReadAllB(rd, 8); err != io.EOF {
				break
			}
		}
	case 2:
		src := mk()
		for i := 0; i < iters; i++ {
			if _, err := ReadMessage(src, vSide(server), nil); err != nil {
				break
			}
		}
	case 3:
		rw := mk()
		for i := 0; i < iters; i++ {
			if _, _, err := readData(rw, vSide(server), ws.OpText); err != nil {
				break
			}
		}
	case 4:
		_, r, err := NextReader(mk(), vSide(server))
		if err == nil {
			vReadAllB(r, 8)
		}
	}
	vAssert(true, "frames.returned")
}
