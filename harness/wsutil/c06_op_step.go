//go:build verif

package wsutil

import (
	"github.com/gobwas/ws"
	"io"
)

// C06_op_step (inductive step): one arbitrary operation from an arbitrary valid writer state.
func C06_op_step() {
	server := vChoose("side", 2) == 0
	sizes := []int{1, 2, 5}
	if vTier() > 0 {
		sizes = []int{1, 2, 3, 5, 8}
	}
	bufLen := sizes[vChoose("buflen", len(sizes))]
	op := ws.OpCode(1 + vChoose("op", 2))
	dst := &vDst{failAt: -1}
	w := vMkWriter(dst, server, bufLen, op)
	// arbitrary pre-state
	n := vChoose("n", bufLen+1)
	old := vBytes("old", n)
	copy(w.buf, old)
	w.n = n
	if vChoose("fseqpos", 2) == 1 {
		// any number of fragments already sent (whatever integer type the counter has: every value
		// it can hold)
		fs0 := vInt("fseq")
		vAssume(vAnd(fs0 > 0, fs0 < 1<<40))
		vSetIntLike(&w.fseq, fs0)
		vAssume(vGetIntLike(w.fseq) == fs0)
	}
	w.dirty = vBool("dirty")
	vAssume(vImplies(w.fseq > 0, w.dirty))
	// bytes get into the buffer only through Write/ReadFrom, which mark the writer dirty.  (Before
	// fix 53fef12 this was NOT an invariant: ReadFrom stopping on a source error left its bytes
	// buffered, or its fragments sent, with the flag clear — defect F19.  The post-state assertions
	// step.invariant_* below keep it inductive, now also for failing and stalling sources.)
	vAssume(vImplies(n > 0, w.dirty))
	w.noFlush = vBool("noflush")
	fseq0, dirty0, noFlush := vGetIntLike(w.fseq), w.dirty, w.noFlush
	size0 := w.Size()

	maxP := 2*bufLen + 1
	// write sizes at the boundaries relative to the free space A = bufLen-n:
	// 0, 1, A-1, A, A+1, bufLen, bufLen+1, 2*bufLen+1 (deduplicated); quick: all 0..maxP for small buffers
	var wlens []int
	if bufLen <= 2 {
		for i := 0; i <= maxP; i++ {
			wlens = append(wlens, i)
		}
	} else {
		seen := map[int]bool{}
		for _, v := range []int{0, 1, bufLen - n - 1, bufLen - n, bufLen - n + 1, bufLen, bufLen + 1, maxP} {
			if v >= 0 && !seen[v] {
				seen[v] = true
				wlens = append(wlens, v)
			}
		}
	}
	pickLen := func() int { return wlens[vChoose("plen", len(wlens))] }
	var accepted []byte
	isFlush := false
	kind := vChoose("kind", 6)
	switch kind {
	case 0: // Write
		p := vBytes("p", pickLen())
		keep := append([]byte{}, p...)
		k, err := w.Write(p)
		vAssert(vAnd(err == nil, k == len(p)), "step.write_accepts_all")
		vAssert(vEqBytes(p, keep), "step.write_caller_intact")
		accepted = keep
		if len(p) <= bufLen-n {
			vAssert(len(dst.calls) == 0, "step.write_that_fits_emits_nothing")
		}
		if noFlush {
			vAssert(len(dst.calls) == 0, "step.noflush_write_emits_nothing")
		}
		vAssert(w.dirty, "step.write_marks_dirty")
	case 1: // ReadFrom
		data := vBytes("p", pickLen())
		var k int64
		var err error
		srcKind := vChoose("srckind", 3)
		switch srcKind {
		case 0: // ends with io.EOF
			src := vNewSrc(data, vChoose("mode", 2), "chunk")
			k, err = w.ReadFrom(&src)
			vAssert(vAnd(err == nil, int(k) == len(data)), "step.readfrom_accepts_all")
			vAssert(w.dirty, "step.readfrom_marks_dirty")
		case 1: // the source fails (non-EOF) after its data, reported separately or with the last bytes
			src := &vCutSrc{data: data, cut: len(data), useErr: true, one: vChoose("mode", 2) == 1, withData: vChoose("withdata", 2) == 1}
			k, err = w.ReadFrom(src)
			vAssert(vAnd(err == vErrSrc, int(k) == len(data)), "step.readfrom_reports_source_error_and_count")
		case 2: // the source stalls: (0, nil) for ever
			src := &vStallSrc{data: data}
			k, err = w.ReadFrom(src)
			vAssert(vAnd(err == io.ErrNoProgress, int(k) == len(data)), "step.readfrom_reports_no_progress_and_count")
		}
		accepted = data
		if noFlush {
			vAssert(len(dst.calls) == 0, "step.noflush_readfrom_emits_nothing")
		}
		if srcKind != 0 {
			// what ReadFrom reported as accepted goes out with the next final flush
			dst.calls = nil
			before := len(dst.all)
			vAssert(vImplies(len(data) > 0, w.dirty), "step.readfrom_with_data_marks_dirty")
			vAssert(vImplies(w.fseq > 0, w.dirty), "step.invariant_fseq_dirty")
			vAssert(vImplies(w.n > 0, w.dirty), "step.invariant_n_dirty")
			vAssert(w.Flush() == nil, "step.flush_after_failed_readfrom_ok")
			if len(data) > 0 || dirty0 {
				// the message the accepted bytes belong to is terminated
				fs, ok := vParseFrames(dst.all)
				vAssert(vAnd(ok, vAnd(len(fs) >= 1, fs[len(fs)-1].fin)), "step.flush_after_failed_readfrom_sends_final_frame")
			}
			_ = before
			isFlush = true
		}
	case 2: // WriteThrough
		p := vBytes("p", pickLen())
		keep := append([]byte{}, p...)
		k, err := w.WriteThrough(p)
		vAssert(vEqBytes(p, keep), "step.writethrough_caller_intact")
		if n != 0 {
			vAssert(vAnd(err == ErrNotEmpty, vAnd(k == 0, len(dst.calls) == 0)), "step.writethrough_refuses_nonempty")
		} else {
			vAssert(vAnd(err == nil, k == len(p)), "step.writethrough_accepts_all")
			accepted = keep
			fs, ok := vParseFrames(dst.all)
			vAssert(vAnd(ok, len(fs) == 1), "step.writethrough_one_frame")
		}
	case 3: // FlushFragment
		err := w.FlushFragment()
		vAssert(err == nil, "step.flushfragment_ok")
		if n == 0 {
			vAssert(len(dst.calls) == 0, "step.flushfragment_empty_emits_nothing")
		}
	case 4: // Flush
		isFlush = true
		err := w.Flush()
		vAssert(err == nil, "step.flush_ok")
		if !dirty0 && n == 0 {
			vAssert(len(dst.calls) == 0, "step.flush_with_nothing_written_emits_nothing")
		} else {
			fs, ok := vParseFrames(dst.all)
			vAssert(vAnd(ok, len(fs) == 1), "step.flush_one_frame")
		}
		vAssert(vAnd(w.fseq == 0, vAnd(!w.dirty, w.n == 0)), "step.flush_resets_message_state")
	case 5: // Grow
		k := pickLen() * (1 + vChoose("growx", 2))
		w.Grow(k)
		vAssert(len(dst.calls) == 0, "step.grow_emits_nothing")
		vAssert(w.Available() >= k, "step.grow_available")
		vAssert(w.Size() >= size0, "step.grow_never_shrinks")
		vAssert(len(w.raw)-len(w.buf) == reserve(w.state, len(w.raw)), "step.grow_reserves_header_space")
	}
	// the wire: whole frames, correct headers
	fs, ok := vParseFrames(dst.all)
	vAssert(ok, "step.whole_frames")
	if !ok {
		return
	}
	var sent []byte
	for i, f := range fs {
		wantOp := byte(0)
		if fseq0 == 0 && i == 0 {
			wantOp = byte(op)
		}
		hdr := vAnd(f.op == wantOp, vAnd(f.rsv == vWantRsv(f.op), f.masked == !server))
		hdr = vAnd(hdr, f.fin == (isFlush && i == len(fs)-1))
		vAssert(hdr, "step.frame_header")
		sent = append(sent, f.payload...)
	}
	// no byte lost, none invented, order kept
	all := append(append([]byte{}, old...), accepted...)
	now := append(append([]byte{}, sent...), w.buf[:w.n]...)
	vAssert(vEqBytes(now, all), "step.bytes_conserved")
	if !isFlush {
		vAssert(vGetIntLike(w.fseq) == fseq0+len(fs), "step.fseq_counts_frames")
		vAssert(vImplies(w.fseq > 0, w.dirty), "step.invariant_fseq_dirty")
		vAssert(vImplies(w.n > 0, w.dirty), "step.invariant_n_dirty")
	}
	vAssert(w.noFlush == noFlush, "step.noflush_kept")
	vAssert(w.err == nil, "step.no_sticky_error")
	vTraceBytes("sent", sent)
}
