//go:build verif

package wsutil

import (
	"github.com/gobwas/ws"
)

// C18_pool_cycle: PutWriter/GetWriter hand out a writer that behaves as new.
func C18_pool_cycle() {
	server := vChoose("side", 2) == 0
	dst0 := &vDst{failAt: -1}
	w := GetWriter(dst0, ws.StateClientSide, ws.OpBinary, 128)
	w.Write([]byte("left over"))
	w.DisableFlush()
	if vChoose("err", 2) == 1 {
		w.err = vErrDst
	}
	PutWriter(w)
	dst := &vDst{failAt: -1}
	w2 := GetWriter(dst, vSide(server), ws.OpText, 128)
	k, err := w2.Write([]byte{'o', 'k'})
	vAssert(vAnd(err == nil, k == 2), "pool.write_works")
	vAssert(w2.Flush() == nil, "pool.flush_works")
	fs, ok := vParseFrames(dst.all)
	vAssert(vAnd(ok, len(fs) == 1), "pool.one_frame")
	if ok && len(fs) == 1 {
		vAssert(vAnd(fs[0].fin, vAnd(fs[0].op == 1, vEqBytes(fs[0].payload, []byte("ok")))), "pool.frame_as_new")
	}
	// the writer that was put back is as new too, whoever gets it next (GetWriter resets it)
	dst3 := &vDst{failAt: -1}
	w.Reset(dst3, vSide(server), ws.OpText)
	fresh := NewWriterBuffer(dst3, vSide(server), ws.OpText, make([]byte, len(w.raw)))
	vAssert(vAnd(w.err == nil, vAnd(w.n == 0, vAnd(!w.noFlush, !w.dirty))), "pool.put_writer_as_new")
	vAssert(vAnd(len(w.buf) == len(fresh.buf), w.Size() == fresh.Size()), "pool.put_writer_buffer_as_new")
	w.Write([]byte{'x', 'y'})
	vAssert(w.Flush() == nil, "pool.put_writer_flush_works")
	fs3, ok3 := vParseFrames(dst3.all)
	vAssert(vAnd(ok3, len(fs3) == 1), "pool.put_writer_one_frame")
	if ok3 && len(fs3) == 1 {
		vAssert(vAnd(fs3[0].masked == !server, vEqBytes(fs3[0].payload, []byte("xy"))), "pool.put_writer_frame_as_new")
	}
}
