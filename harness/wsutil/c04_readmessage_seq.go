//go:build verif

package wsutil

// C04_readmessage_seq: ReadMessage returns each top-level item (with intermediates first).
func C04_readmessage_seq() {
	server := vChoose("side", 2) == 0
	k, mp, mode, _ := vVariant()
	wire, items := vGenStream(server, k, mp, true)
	src := vNewSrc(wire, mode, "chunk")
	for _, it := range items {
		ms, err := ReadMessage(&src, vSide(server), nil)
		vAssert(err == nil, "rm.ok")
		if err != nil {
			return
		}
		vAssert(len(ms) == len(it.inter)+1, "rm.count")
		if len(ms) != len(it.inter)+1 {
			return
		}
		for i, c := range it.inter {
			vAssert(vAnd(byte(ms[i].OpCode) == c.op, vEqBytes(ms[i].Payload, c.payload)), "rm.intermediate")
		}
		last := ms[len(ms)-1]
		vAssert(byte(last.OpCode) == it.op, "rm.opcode")
		vAssert(vEqBytes(last.Payload, it.payload), "rm.payload")
		vTraceBytes("msg", last.Payload)
	}
	vAssert(src.pos == len(wire), "rm.all_consumed")
}
