//go:build verif

package wsutil

import (
	"github.com/gobwas/ws"
)

type vExt struct{}

func (vExt) SetBits(h ws.Header) (ws.Header, error) { return h, nil }
