//go:build verif

package wsutil

import (
	"io"

	"github.com/gobwas/ws"
)

type vExt struct{}

func (vExt) SetBits(h ws.Header) (ws.Header, error) { return h, nil }

// C18_writer_reset: from ANY prior state (buffered data, fragments sent, growth, extensions,
// disabled flushing, other side, sticky error) Reset makes the writer equal to a fresh
// NewWriterBuffer over the same backing array; ResetOp keeps extensions and flush mode.
func C18_writer_reset() {
	server0 := vChoose("side0", 2) == 0
	dst0 := &vDst{failAt: -1}
	rawLen := []int{16, 140}[vChoose("raw", 2)]
	w := NewWriterBuffer(dst0, vSide(server0), ws.OpText, make([]byte, rawLen))
	// arbitrary history, expressed as an arbitrary state
	w.n = vChoose("n", 4)
	w.fseq = vInt("fseq")
	vAssume(w.fseq >= 0)
	w.dirty = vBool("dirty")
	w.noFlush = vBool("noflush")
	if vChoose("ext", 2) == 1 {
		w.SetExtensions(vExt{})
	}
	if vChoose("err", 2) == 1 {
		w.err = vErrDst
	}
	if vChoose("grown", 2) == 1 {
		w.Grow(300)
	}
	if vChoose("parked", 2) == 1 {
		w.Reset(nil, 0, 0) // what PutWriter does before parking a writer in the pool
	}
	server := vChoose("side", 2) == 0
	op := ws.OpCode(1 + vChoose("op", 2))
	dst := &vDst{failAt: -1}
	if vChoose("which", 2) == 0 {
		w.Reset(dst, vSide(server), op)
		fresh := NewWriterBuffer(dst, vSide(server), op, make([]byte, len(w.raw)))
		same := vAnd(w.n == fresh.n, vAnd(w.fseq == fresh.fseq, vAnd(w.dirty == fresh.dirty, w.noFlush == fresh.noFlush)))
		vAssert(same, "reset.counters_as_new")
		vAssert(vAnd(w.op == fresh.op, w.state == fresh.state), "reset.config_as_new")
		vAssert(len(w.extensions) == 0, "reset.extensions_dropped")
		vAssert(vAnd(len(w.buf) == len(fresh.buf), len(w.raw) == len(fresh.raw)), "reset.buffer_as_new")
		vAssert(w.err == nil, "reset.sticky_error_cleared")
		// behaves as new: one small message
		k, err := w.Write([]byte{'h', 'i'})
		vAssert(vAnd(err == nil, k == 2), "reset.write_works")
		vAssert(w.Flush() == nil, "reset.flush_works")
		fs, ok := vParseFrames(dst.all)
		vAssert(vAnd(ok, len(fs) == 1), "reset.one_frame")
		if ok && len(fs) == 1 {
			f := fs[0]
			vAssert(vAnd(f.fin, vAnd(f.op == byte(op), vAnd(f.masked == !server, vEqBytes(f.payload, []byte("hi"))))), "reset.frame_as_new")
		}
		vAssert(len(dst0.all) == 0, "reset.old_destination_untouched")
		return
	}
	ext0, nf0 := len(w.extensions), w.noFlush
	w.ResetOp(op)
	vAssert(vAnd(w.n == 0, vAnd(w.fseq == 0, !w.dirty)), "resetop.drops_fragments")
	vAssert(vAnd(len(w.extensions) == ext0, w.noFlush == nf0), "resetop.keeps_extensions_and_flush_mode")
	vAssert(w.op == op, "resetop.op")
}

// C18_pool_cycle: PutWriter/GetWriter hand out a writer that behaves as new.
func C18_pool_cycle() {
	server := vChoose("side", 2) == 0
	dst0 := &vDst{failAt: -1}
	w := GetWriter(dst0, ws.StateClientSide, ws.OpBinary, 128)
	w.Write([]byte("left over"))
	w.DisableFlush()
	if vChoose("err", 2) == 1 {
		w.err = vErrDst
	}
	PutWriter(w)
	dst := &vDst{failAt: -1}
	w2 := GetWriter(dst, vSide(server), ws.OpText, 128)
	k, err := w2.Write([]byte{'o', 'k'})
	vAssert(vAnd(err == nil, k == 2), "pool.write_works")
	vAssert(w2.Flush() == nil, "pool.flush_works")
	fs, ok := vParseFrames(dst.all)
	vAssert(vAnd(ok, len(fs) == 1), "pool.one_frame")
	if ok && len(fs) == 1 {
		vAssert(vAnd(fs[0].fin, vAnd(fs[0].op == 1, vEqBytes(fs[0].payload, []byte("ok")))), "pool.frame_as_new")
	}
	// the writer that was put back is as new too, whoever gets it next (GetWriter resets it)
	dst3 := &vDst{failAt: -1}
	w.Reset(dst3, vSide(server), ws.OpText)
	fresh := NewWriterBuffer(dst3, vSide(server), ws.OpText, make([]byte, len(w.raw)))
	vAssert(vAnd(w.err == nil, vAnd(w.n == 0, vAnd(!w.noFlush, !w.dirty))), "pool.put_writer_as_new")
	vAssert(vAnd(len(w.buf) == len(fresh.buf), w.Size() == fresh.Size()), "pool.put_writer_buffer_as_new")
	w.Write([]byte{'x', 'y'})
	vAssert(w.Flush() == nil, "pool.put_writer_flush_works")
	fs3, ok3 := vParseFrames(dst3.all)
	vAssert(vAnd(ok3, len(fs3) == 1), "pool.put_writer_one_frame")
	if ok3 && len(fs3) == 1 {
		vAssert(vAnd(fs3[0].masked == !server, vEqBytes(fs3[0].payload, []byte("xy"))), "pool.put_writer_frame_as_new")
	}
}

// C18_small_resets: CipherReader/CipherWriter/UTF8Reader Reset equal fresh instances.
func C18_small_resets() {
	key := [4]byte{vU8("k0"), vU8("k1"), vU8("k2"), vU8("k3")}
	old := [4]byte{vU8("o0"), vU8("o1"), vU8("o2"), vU8("o3")}
	src := &vChunkSrc{}
	switch vChoose("which", 3) {
	case 0:
		cr := &CipherReader{r: nil, mask: old, pos: vInt("pos")}
		cr.Reset(src, key)
		fresh := NewCipherReader(src, key)
		vAssert(vAnd(cr.mask == fresh.mask, vAnd(cr.pos == fresh.pos, cr.r == fresh.r)), "small.cipherreader_as_new")
	case 1:
		dst := &vDst{failAt: -1}
		cw := &CipherWriter{w: nil, mask: old, pos: vInt("pos")}
		cw.Reset(dst, key)
		fresh := NewCipherWriter(dst, key)
		vAssert(vAnd(cw.mask == fresh.mask, vAnd(cw.pos == fresh.pos, cw.w == fresh.w)), "small.cipherwriter_as_new")
	case 2:
		u := &UTF8Reader{state: vU32("state"), codep: vU32("codep"), accepted: int(vU8("accepted"))}
		u.Reset(src)
		fresh := NewUTF8Reader(src)
		vAssert(vAnd(u.state == fresh.state, u.codep == fresh.codep), "small.utf8reader_state_as_new")
		vAssert(u.Accepted() == fresh.Accepted(), "small.utf8reader_accepted_as_new")
		vAssert(vAnd(u.Valid() == fresh.Valid(), u.Source == fresh.Source), "small.utf8reader_valid_as_new")
	}
}

// C18_reader_next_message: after a complete message has been delivered or discarded the
// reader's message state equals a fresh reader's.
func C18_reader_next_message() {
	server := vChoose("side", 2) == 0
	wire, items := vGenStream(server, 2, 1, false)
	src := vNewSrc(wire, 0, "chunk")
	rd := &Reader{Source: &src, State: vSide(server), CheckUTF8: vBool("utf8")}
	rd.OnIntermediate = func(h ws.Header, r io.Reader) error { return nil }
	for n := range items {
		_, err := rd.NextFrame()
		if err != nil {
			return
		}
		if vChoose("how", 2) == 0 {
			if _, err := vReadAllB(rd, 16); err != io.EOF {
				return // invalid UTF-8 (text bytes are arbitrary here): not a delivered message
			}
		} else if rd.Discard() != nil {
			return
		}
		fresh := &Reader{}
		same := vAnd(rd.opCode == fresh.opCode, vAnd(rd.frame == nil, vAnd(rd.raw.N == 0, rd.raw.R == nil)))
		same = vAnd(same, vAnd(rd.utf8.state == 0, vAnd(rd.utf8.codep == 0, rd.utf8.accepted == 0)))
		same = vAnd(same, rd.State == vSide(server))
		vAssert(same, "reader.message_state_as_new")
		_ = n
	}
}
