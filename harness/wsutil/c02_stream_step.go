//go:build verif

package wsutil

import "io"

// C02_stream_step (inductive step): CipherReader/CipherWriter from an arbitrary running
// position apply the §5.3 XOR at positions pos..pos+n-1 and advance pos by the bytes moved;
// an arbitrary chunking is a sequence of such steps.
func C02_stream_step() {
	key := [4]byte{vU8("k0"), vU8("k1"), vU8("k2"), vU8("k3")}
	pos := vInt("pos")
	vAssume(vAnd(pos >= 0, pos <= 1<<62))
	maxN := 12
	if vTier() > 0 {
		maxN = 24
	}
	n := vChoose("n", maxN+2)
	var data []byte
	if n == maxN+1 {
		// a caller slice whose capacity is exactly one of the byte pool's size classes
		n = 128
		data = make([]byte, n)
		for i := range data {
			data[i] = byte(i)
		}
		data[0], data[1], data[127] = vU8("d0"), vU8("d1"), vU8("dz")
	} else {
		data = vBytes("d", n)
	}
	pm := uint64(pos) % 4
	dir := vChoose("dir", 3)
	if n == 128 && dir != 1 {
		vAssume(false) // the pool-class slice matters for the writer (which copies into pooled scratch) only
	}
	if dir == 2 {
		// the rest of a payload drained with io.Copy (which uses a WriterTo / ReaderFrom short-cut
		// of either end when there is one) from a reader that is already at position pos
		if n > 6 {
			vAssume(false)
		}
		_ = maxN
		src := vNewSrc(append([]byte{}, data...), vChoose("mode", 2), "chunk")
		cr := NewCipherReader(&src, [4]byte{})
		cr.Reset(&src, key)
		cr.pos = pos
		out := &vDst{failAt: -1}
		m, err := io.Copy(out, cr)
		vAssert(vAnd(err == nil, int(m) == n), "stream.copy_moves_everything")
		ok := len(out.all) == n
		for i := 0; i < len(out.all) && i < n; i++ {
			ok = vAnd(ok, out.all[i] == data[i]^key[(pm+uint64(i%4))%4])
		}
		vAssert(ok, "stream.copy_xor_continues_at_the_running_position")
		vAssert(cr.pos == pos+n, "stream.copy_pos_advances")
		return
	}
	if dir == 0 {
		src := &vChunkSrc{data: data, withErr: vChoose("srcerr", 3)}
		cr := NewCipherReader(src, [4]byte{})
		cr.Reset(src, key)
		cr.pos = pos
		buf := make([]byte, n)
		got, err := cr.Read(buf)
		vAssert(err == src.lastErr, "stream.read_error_passed_through")
		vAssert(got == src.pos, "stream.read_count")
		ok := true
		for i := 0; i < got; i++ {
			ok = vAnd(ok, buf[i] == data[i]^key[(pm+uint64(i%4))%4])
		}
		vAssert(ok, "stream.read_xor")
		vAssert(cr.pos == pos+got, "stream.read_pos_advances")
		return
	}
	dst := &vPartialDst{short: vChoose("shortwrite", 2) == 1}
	cw := NewCipherWriter(dst, [4]byte{})
	cw.Reset(dst, key)
	cw.pos = pos
	keep := append([]byte{}, data...)
	got, err := cw.Write(data)
	vAssert(got == len(dst.all), "stream.write_count_is_accepted_bytes")
	vAssert((err == nil) == (got == n), "stream.write_error_iff_short")
	vAssert(vEqBytes(data, keep), "stream.write_caller_intact")
	vPoisonPools() // whatever the writer handed to the pools is recycled by others from here on
	vAssert(vEqBytes(data, keep), "stream.write_caller_bytes_stay_the_callers")
	ok := true
	for i := 0; i < len(dst.all); i++ {
		ok = vAnd(ok, dst.all[i] == keep[i]^key[(pm+uint64(i%4))%4])
	}
	vAssert(ok, "stream.write_xor")
	vAssert(cw.pos == pos+got, "stream.write_pos_advances_by_accepted")
}
