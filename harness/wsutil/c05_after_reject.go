//go:build verif

package wsutil

import (
	"io"

	"github.com/gobwas/ws"
)

// C05_after_reject: what a Read AFTER the rejecting NextFrame returns.  The frame before the
// offending one is none (fresh reader), an empty ping/pong/text/binary frame whose (empty)
// payload the caller did not bother to read -- it saw Length == 0 and went on to NextFrame, as
// the library's own ControlHandler does --, or a 1-byte message read to its end.  The offending
// frame announces more than MaxFrameSize or carries a reserved opcode; its two payload bytes are
// symbolic.  Between messages a Read delivers not one byte of it and consumes none.
func C05_after_reject() {
	server := vChoose("side", 2) == 0
	key := [4]byte{vU8("k0"), vU8("k1"), vU8("k2"), vU8("k3")}
	var wire []byte
	prev := vChoose("prev", 6)
	switch prev {
	case 1:
		wire = vEncode(vFrame{fin: true, op: 9, masked: server, key: key})
	case 2:
		wire = vEncode(vFrame{fin: true, op: 10, masked: server, key: key})
	case 3:
		wire = vEncode(vFrame{fin: true, op: 1, masked: server, key: key})
	case 4:
		wire = vEncode(vFrame{fin: true, op: 2, masked: server, key: key})
	case 5:
		wire = vEncode(vFrame{fin: true, op: 2, masked: server, key: key, payload: []byte{vU8("p0")}})
	}
	bad := vFrame{fin: true, op: 2, masked: server, key: key, payload: vBytes("bad", 2)}
	tooLarge := vChoose("bad", 2) == 0
	if !tooLarge {
		bad.op = 3
	}
	hs := 2
	if server {
		hs = 6
	}
	prefixLen := len(wire)
	wire = append(wire, vEncode(bad)...)
	wire = append(wire, vEncode(vFrame{fin: true, op: 2, masked: server, key: key, payload: []byte{'n'}})...)
	src := vNewSrc(wire, vChoose("mode", 2), "chunk")
	rd := &Reader{Source: &src, State: vSide(server), CheckUTF8: vBool("utf8"), MaxFrameSize: 1}
	if prev != 0 {
		h, err := rd.NextFrame()
		vAssert(err == nil, "after.prefix_ok")
		if err != nil {
			return
		}
		if h.Length > 0 {
			p, err := vReadAllB(rd, 16)
			vAssert(vAnd(err == io.EOF, len(p) == 1), "after.prefix_delivered")
		}
	}
	_, err := rd.NextFrame()
	if tooLarge {
		vAssert(err == ErrFrameTooLarge, "after.too_large_reported")
	} else {
		_, isProto := err.(ws.ProtocolError)
		vAssert(isProto, "after.protocol_error_reported")
	}
	buf := make([]byte, 4)
	n, rerr := rd.Read(buf)
	vAssert(n == 0, "after.read_delivers_nothing_of_the_offending_frame")
	vAssert(rerr != nil, "after.read_reports_an_error_or_end")
	vAssert(src.pos == prefixLen+hs, "after.no_offending_payload_consumed")
}
