//go:build verif

package wsutil

import (
	"github.com/gobwas/ws"
)

// C16_writer_sticky: once the destination has failed, every later write and flush reports the
// error and sends nothing more.
func C16_writer_sticky() {
	server := vChoose("side", 2) == 0
	bufLen := 2
	op := ws.OpText
	if vChoose("mode", 2) == 0 {
		// (a) arbitrary state with a sticky error already set: one operation
		dst := &vDst{failAt: -1}
		w := vMkWriter(dst, server, bufLen, op)
		w.n = vChoose("n", bufLen+1)
		vSetIntLike(&w.fseq, vChoose("fseq", 2))
		w.dirty = vBool("dirty")
		w.noFlush = vBool("noflush")
		w.err = vErrDst
		var err error
		if vChoose("resetop", 2) == 1 {
			// starting the next message with the quick opcode reset does not re-arm a writer whose
			// destination has failed (only Reset with a new destination does)
			w.ResetOp(ws.OpBinary)
		}
		kind := vChoose("kind", 5)
		switch kind {
		case 4: // ReadFrom: whatever it returns, nothing may reach the destination
			src := vNewSrc(vBytes("p", vChoose("plen", 6)), 0, "chunk")
			w.ReadFrom(&src)
			vAssert(len(dst.calls) == 0, "sticky.readfrom_sends_nothing")
			return
		case 0:
			_, err = w.Write(vBytes("p", vChoose("plen", 6)))
		case 1:
			_, err = w.WriteThrough(vBytes("p", vChoose("plen", 4)))
		case 2:
			err = w.Flush()
		case 3:
			err = w.FlushFragment()
		}
		vAssert(err == vErrDst, "sticky.error_returned")
		vAssert(len(dst.calls) == 0, "sticky.nothing_sent")
		return
	}
	// (b) the j-th destination write fails during a sequence
	dst := &vDst{failAt: vChoose("failat", 3)}
	w := vMkWriter(dst, server, bufLen, op)
	failedSeen := false
	callsAtFail := 0
	for s := 0; s < 4; s++ {
		var err error
		switch vChoose("kind", 4) {
		case 3: // next message started with the quick opcode reset, then a write
			w.ResetOp(ws.OpBinary)
			_, err = w.Write(vBytes("p", 3))
		case 0:
			_, err = w.Write(vBytes("p", []int{1, 3, 5}[vChoose("plen", 3)]))
		case 1:
			err = w.FlushFragment()
		case 2:
			err = w.Flush()
		}
		if failedSeen {
			vAssert(err != nil, "sticky.later_ops_fail")
			vAssert(len(dst.calls) == callsAtFail, "sticky.no_bytes_after_failure")
		}
		if dst.failed && !failedSeen {
			vAssert(err != nil, "sticky.failure_reported_by_failing_op")
			failedSeen = true
			callsAtFail = len(dst.calls)
		}
	}
	// (a frame torn by the failing write itself is a truncation, not a hole: not asserted)
}
