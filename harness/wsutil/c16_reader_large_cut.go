//go:build verif

package wsutil

import (
	"io"

	"github.com/gobwas/ws"
)

// C16_reader_large_cut: frames that announce a long payload (the 16-bit and 64-bit length forms:
// 126, 65535, 65536, 2^20+1, 2^40) of which only 0, 1, 5 or 300 bytes arrive before the stream
// ends or fails (reported alone or together with the last bytes), both sides, data and -- for
// the lengths a control frame cannot have -- only data frames: through Reader + read to the end,
// NextReader, ReadMessage and readData.  Never a complete message, never a clean end of stream.
func C16_reader_large_cut() {
	server := vChoose("side", 2) == 0
	L := []uint64{126, 65535, 65536, 1<<20 + 1, 1 << 40}[vChoose("len", 5)]
	var hdr []byte
	b1 := byte(0)
	if server {
		b1 = 0x80
	}
	op := byte(1 + vChoose("op", 2))
	fin := byte(0x80)
	if vChoose("fin", 2) == 0 {
		fin = 0
	}
	if L <= 65535 {
		hdr = []byte{fin | op, b1 | 126, byte(L >> 8), byte(L)}
	} else {
		hdr = []byte{fin | op, b1 | 127, byte(L >> 56), byte(L >> 48), byte(L >> 40), byte(L >> 32), byte(L >> 24), byte(L >> 16), byte(L >> 8), byte(L)}
	}
	if server {
		hdr = append(hdr, vU8("k0"), vU8("k1"), vU8("k2"), vU8("k3"))
	}
	k := []int{0, 1, 5, 300}[vChoose("have", 4)]
	if uint64(k) >= L {
		vAssume(false)
	}
	body := make([]byte, k)
	for i := range body {
		body[i] = 'a'
	}
	if server {
		hdr[0] = fin | 2 // masked bytes under a free key are not text: binary on the server side
	}
	wire := append(hdr, body...)
	kind := vChoose("kind", 4)
	src := &vCutSrc{data: wire, cut: len(wire), useErr: kind%2 == 1, withData: kind >= 2, one: k <= 5 && vChoose("chunk", 2) == 1}
	switch vChoose("api", 4) {
	case 0:
		rd := &Reader{Source: src, State: vSide(server), CheckUTF8: true}
		_, err := rd.NextFrame()
		vAssert(err == nil, "largecut.header_ok")
		if err != nil {
			return
		}
		got, err := vReadAllB(rd, 64)
		vAssert(vAnd(err != nil, err != io.EOF), "largecut.reader_never_completes")
		vAssert(len(got) <= k, "largecut.reader_delivers_no_more_than_arrived")
	case 1:
		_, r, err := NextReader(src, vSide(server))
		vAssert(err == nil, "largecut.nextreader_header_ok")
		if err != nil {
			return
		}
		_, err = vReadAllB(r, 64)
		vAssert(vAnd(err != nil, err != io.EOF), "largecut.nextreader_never_completes")
	case 2:
		ms, err := ReadMessage(src, vSide(server), nil)
		vAssert(err != nil, "largecut.readmessage_fails")
		vAssert(len(ms) == 0, "largecut.readmessage_returns_no_message")
	default:
		rw := &vRWCut{vCutSrc: src}
		// (what arrived may come back next to the error, as with io.ReadAll: not a success)
		_, _, err := readData(rw, vSide(server), ws.OpText|ws.OpBinary)
		vAssert(err != nil, "largecut.readdata_fails")
		vAssert(len(rw.out) == 0, "largecut.readdata_writes_nothing")
	}
}

type vRWCut struct {
	*vCutSrc
	out []byte
}

func (w *vRWCut) Write(p []byte) (int, error) { w.out = append(w.out, p...); return len(p), nil }
