//go:build verif

package wsutil

import (
	"io"
	"runtime/debug"

	"github.com/gobwas/ws"
)

// C15_control_flood: a long run of control frames between two fragments of a message is handled
// in constant stack space.  Under the engine the run is 6 frames and the recursion monitor
// watches the call depth; natively the same stream is 300 000 frames long and is read under a
// 16 MB stack limit (a per-frame nested call would overflow it: a fatal error, not a panic).
func C15_control_flood() {
	server := vChoose("side", 2) == 0
	key := [4]byte{vU8("k0"), vU8("k1"), vU8("k2"), vU8("k3")}
	k := 6
	if !vSymbolic() {
		k = 300000
		defer debug.SetMaxStack(debug.SetMaxStack(16 << 20))
	}
	op := byte(9 + vChoose("ctl", 2)) // ping or pong
	pay := vBytes("p", vChoose("plen", 2))
	wire := vEncode(vFrame{fin: false, op: 2, masked: server, key: key, payload: []byte{'a'}})
	one := vEncode(vFrame{fin: true, op: op, masked: server, key: key, payload: pay})
	for i := 0; i < k; i++ {
		wire = append(wire, one...)
	}
	wire = append(wire, vEncode(vFrame{fin: true, op: 0, masked: server, key: key, payload: []byte{'b'}})...)
	src := vNewSrc(wire, 0, "chunk")
	rd := &Reader{Source: &src, State: vSide(server)}
	seen := 0
	rd.OnIntermediate = func(h ws.Header, r io.Reader) error { seen++; return nil }
	_, err := rd.NextFrame()
	vAssert(err == nil, "flood.first_frame_ok")
	var got []byte
	buf := make([]byte, 8)
	for i := 0; i < k+8 && err == nil; i++ {
		var n int
		n, err = rd.Read(buf)
		got = append(got, buf[:n]...)
	}
	vAssert(err == io.EOF, "flood.message_ends")
	vAssert(vAnd(len(got) == 2, seen == k), "flood.payload_and_every_control_frame_seen")
}
