//go:build verif

package wsutil

import (
	"io"

	"github.com/gobwas/ws"
)

// C05_reject_step (inductive step): from an arbitrary reader state between frames, for an
// ARBITRARY next header: protocol error iff the oracle rejects, size-limit error iff valid and
// too large; in both cases not one payload byte is consumed and the state is unchanged.
func C05_reject_step() {
	st := ws.State(vU8("state"))
	vAssume(st <= 15)
	server := st&ws.StateServerSide != 0
	client := st&ws.StateClientSide != 0
	ext := st&ws.StateExtended != 0
	frag := st&ws.StateFragmented != 0
	S := vBytes("hdr", 14)
	extra := vBytes("payload", 3)
	max := int64(vU64("maxframe"))
	// reference header decode
	b0, b1 := S[0], S[1]
	fin, rsv, op := b0&0x80 != 0, (b0>>4)&7, b0&15
	masked := b1&0x80 != 0
	l7 := b1 & 0x7f
	hs := 2
	var L uint64
	switch {
	case l7 == 126:
		hs = 4
		L = uint64(S[2])<<8 | uint64(S[3])
	case l7 == 127:
		hs = 10
		for i := 0; i < 8; i++ {
			L = L<<8 | uint64(S[2+i])
		}
	default:
		L = uint64(l7)
	}
	if masked {
		hs += 4
	}
	msb := vAnd(l7 == 127, S[2]&0x80 != 0)
	vAssume(!msb) // not a header in the property's sense (C01 covers it)
	wire := append(append([]byte{}, S[:hs]...), extra...)
	src := vNewSrc(wire, vChoose("mode", 2), "chunk")
	rd := &Reader{Source: &src, State: st, MaxFrameSize: max, CheckUTF8: vBool("utf8")}
	if frag {
		rd.opCode = ws.OpCode(1 + vChoose("openop", 2))
	}
	nint := 0
	rd.OnIntermediate = func(h ws.Header, r io.Reader) error { nint++; return nil }
	broken := vHeaderBroken(fin, rsv, op, masked, L, server, client, ext, frag)
	tooLarge := vAnd(!broken, vAnd(max > 0, L > uint64(max)))
	// keep accepted intermediate control payloads within the 3 bytes the stub can serve
	vAssume(vImplies(vAnd(!broken, vAnd(!tooLarge, vAnd(frag, op&8 != 0))), L <= 3))
	h, err := rd.NextFrame()
	_, isProto := err.(ws.ProtocolError)
	vAssert(isProto == broken, "step.protocol_error_iff_broken")
	vAssert((err == ErrFrameTooLarge) == tooLarge, "step.too_large_iff")
	if broken || tooLarge {
		vAssert(src.pos == hs, "step.no_payload_byte_consumed")
		vAssert(rd.State == st, "step.state_unchanged_on_reject")
		vAssert(nint == 0, "step.no_handler_on_reject")
		return
	}
	vAssert(err == nil, "step.valid_accepted")
	if err != nil {
		return
	}
	vAssert(vAnd(h.Fin == fin, vAnd(byte(h.OpCode) == op, vAnd(h.Masked == masked, uint64(h.Length) == L))), "step.header_fields")
	control := op&8 != 0
	if control {
		vAssert(rd.State == st, "step.control_keeps_state")
		vAssert((nint == 1) == frag, "step.intermediate_handler_iff_fragmented")
	} else {
		wantFrag := !fin
		vAssert(rd.State.Fragmented() == wantFrag, "step.fragmented_tracks_fin")
		vAssert(rd.State&^ws.StateFragmented == st&^ws.StateFragmented, "step.other_bits_kept")
		vAssert(src.pos == hs, "step.data_payload_not_prefetched")
	}
}

// C05_prefix_then_bad: a valid prefix is delivered exactly, then the first offending frame is
// reported; none of its payload is delivered.
func C05_prefix_then_bad() {
	server := vChoose("side", 2) == 0
	k := 1 + vTier()
	wire, items, frag, cur := vGenStreamX(server, k, 2, true, false)
	// one invalid frame, by kind
	bad := vFrame{fin: true, op: 2, masked: server, key: [4]byte{1, 2, 3, 4}, payload: vBytes("bad", 2)}
	switch vChoose("bad", 7) {
	case 0:
		bad.op = 3 + byte(vChoose("resv", 2))*8 // reserved opcode 3 or 0xb
	case 1:
		bad.op, bad.fin = 9, false // fragmented control
	case 2:
		bad.op, bad.payload = 9, make([]byte, 126) // oversized control
	case 3:
		bad.masked = !server // wrong mask bit
	case 4:
		bad.rsv = 1 + byte(vChoose("rsv", 7)) // rsv without extension
	case 5:
		if frag {
			bad.op = 1 + byte(vChoose("nested", 2)) // nested data frame
		} else {
			bad.op = 0 // stray continuation
		}
	case 6:
		bad.op = 8
		bad.fin = false
	}
	hs := 2
	if len(bad.payload) > 125 {
		hs = 4
	}
	if bad.masked {
		hs += 4
	}
	prefixLen := len(wire)
	wire = append(wire, vEncode(bad)...)
	src := vNewSrc(wire, vChoose("mode", 2), "chunk")
	rd := &Reader{Source: &src, State: vSide(server), CheckUTF8: true}
	for _, it := range items {
		h, err := rd.NextFrame()
		vAssert(err == nil, "ptb.prefix_ok")
		if err != nil {
			return
		}
		p, err := vReadAllB(rd, 16)
		vAssert(vAnd(err == io.EOF, vAnd(byte(h.OpCode) == it.op, vEqBytes(p, it.payload))), "ptb.prefix_delivered")
	}
	var got []byte
	var err error
	if frag {
		// an open fragmented message: its first frame header, then reads hit the bad frame
		var h ws.Header
		h, err = rd.NextFrame()
		vAssert(vAnd(err == nil, byte(h.OpCode) == cur.op), "ptb.open_first")
		got, err = vReadAllB(rd, 16)
		vAssert(vEqBytes(got, cur.payload), "ptb.open_payload_before_bad")
	} else {
		_, err = rd.NextFrame()
	}
	_, isProto := err.(ws.ProtocolError)
	vAssert(isProto, "ptb.protocol_error")
	vAssert(src.pos == prefixLen+hs, "ptb.no_bad_payload_consumed")
}
