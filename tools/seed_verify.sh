#!/bin/bash
# usage: tools/seed_verify.sh [seeded-name ...]   (default: all)
# For each stored seeded change: in a fresh scratch worktree of /repo HEAD, the demo test must PASS
# without the patch and FAIL with it, and the existing suite must pass with the patch (demo absent).
export GOFLAGS=-mod=mod GOPROXY=off GOSUMDB=off GOTOOLCHAIN=local
cd /verif/seeded
names=${@:-$(ls)}
for n in $names; do
  d=/verif/seeded/$n
  demo=$(ls $d/zz_seed_demo_test.go 2>/dev/null)
  [ -z "$demo" ] && { echo "$n: no demo (own regression seed)"; continue; }
  W=/tmp/seedverify_$$; git -C /repo worktree add -q --detach $W HEAD || continue
  pkg=$(grep -m1 '^package ' $demo | awk '{print $2}'); sub=.; [ "$pkg" = wsutil ] && sub=wsutil; [ "$pkg" = wsflate ] && sub=wsflate
  [ "$pkg" = ws_test ] && sub=.; [ "$pkg" = wsutil_test ] && sub=wsutil; [ "$pkg" = wsflate_test ] && sub=wsflate
  cp $demo $W/$sub/
  a=$(cd $W && go test -count=1 -run 'Seed|seed|ZZ' ./$sub/ 2>&1 | tail -1)
  if (cd $W && git apply $d/patch.diff 2>/dev/null); then
    b=$(cd $W && go test -count=1 -run 'Seed|seed|ZZ' ./$sub/ 2>&1 | tail -1)
    rm $W/$sub/zz_seed_demo_test.go
    c=$(cd $W && go build ./... && go test -count=1 ./... 2>&1 | grep -c "^FAIL")
  else b="PATCH-DOES-NOT-APPLY"; c=?; fi
  st=OK; case "$a" in ok*) ;; *) st=BAD;; esac; case "$b" in FAIL*|*FAIL*) ;; *) st=BAD;; esac; [ "$c" != 0 ] && st=BAD
  echo "$n: $st without=[${a:0:40}] with=[${b:0:40}] suite_fails=$c"
  git -C /repo worktree remove --force $W
done
