#!/bin/bash
# usage: tools/seed_regress.sh [name-prefix]   -- re-runs, for every stored seeded change, the quick check of the
# property it was written against (scratch worktree, VERIF_REPO); prints one line per change.
cd /verif
for d in seeded/${1:-}*/; do
  n=$(basename $d)
  prop=$(python3 -c "import json;print(json.load(open('$d/meta.json'))['property'])" 2>/dev/null) || continue
  r=$(tools/seed_recheck.sh $n $prop 2>&1 | tail -1)
  echo "$n $prop $r"
done
