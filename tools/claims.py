SE="All inputs within the harness bounds are covered by solver verdicts over symbolic paths of the real code; outside the bounds nothing is claimed."
NOTE="Trusted: the symgo translator (validated on every run by replaying solver models natively and comparing traces), z3, the intrinsics/stubs listed in the evidence file."
claimed={
 "C01":("Header codec: all header fields incl. the full 63-bit length symbolic; both decoders on all 14-byte strings and every cut; frame read/write/compile for payload lengths {0..3,125,126,127} (thorough: +65535,65536). "+SE,NOTE,"DESIGN.md §5 C01"),
 "C02":("Cipher pointwise XOR for every payload length 0..40 (thorough 0..130), symbolic key and 63-bit offset; chunk compositionality and involution n<=20 (40); mask/unmask helpers n<=9. "+SE,NOTE,"DESIGN.md §5 C02"),
 "C03":("CheckHeader over all header x state combinations (symbolic) against an RFC oracle incl. named-rule check; all 65536 close codes x reasons <=3 (4) symbolic bytes; close bodies for reason lengths around the 123-byte crop. "+SE,NOTE,"DESIGN.md §5 C03"),
 "C04":("All valid frame sequences of <=3 (thorough 4) frames + closing frames over {text,binary,continuation,ping,pong} x fin x payload 0..2 symbolic bytes, both sides, chunkings {whole,1-byte,(thorough) nondeterministic}, caller buffers {1,2,16}, through Reader, ReadMessage, readData (all want masks), NextReader, Discard. "+SE,NOTE,"DESIGN.md §5 C04"),
 "C05":("Inductive step from an arbitrary reader state (all 16 state values) with an arbitrary 14-byte header incl. symbolic 63-bit length and symbolic MaxFrameSize; plus valid prefixes followed by 7 kinds of offending frame. "+SE,NOTE,"DESIGN.md §5 C05"),
 "C06":("Header-space arithmetic for all sizes up to 2^40 (symbolic); one arbitrary writer operation from an arbitrary valid state (buffer sizes 1,2,5; thorough 1,2,3,5,8; symbolic content, fseq, flags); sequences of <=2 (3) operations from each constructor; WriteMessage helpers. "+SE,NOTE,"DESIGN.md §5 C06"),
 "C07":("DFA table vs. a reference automaton from Unicode Table 3-7: bisimulation over all 9 states x 256 bytes (hence strings of any length); UTF8Reader step from any state over <=3 (4) bytes; fragmented text messages of <=3 (4) arbitrary bytes with every split point, optional interleaved control frame, both APIs. "+SE,NOTE,"DESIGN.md §5 C07"),
}
NA={}
