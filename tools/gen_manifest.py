#!/usr/bin/env python3
import json
props=[json.loads(l) for l in open('/verif/properties.jsonl')]
ids=[p['id'] for p in props]
# claimed: id -> (level text, note, design ref)
claimed={}
exec(open('/verif/tools/claims.py').read())
na={}
for i in ids:
    if i not in claimed:
        na[i]=NA.get(i,"check not built yet")
checks=[]
for i in ids:
    if i in claimed:
        text,note,ref=claimed[i]
        checks.append({"property_id":i,
          "quick_cmd":f"./bin/symgo check {i} quick",
          "thorough_cmd":f"./bin/symgo check {i} thorough",
          "evidence_file":f"/verif/evidence/{i}.json",
          "replay_cmd_template":"./bin/symgo replay {path}",
          "engine":"symgo",
          "level_claimed":{"category":"model_checking","text":text,"design_ref":ref},
          "level_note":note,
          "technique":"bounded symbolic execution of the go/ssa form of the real code; every assertion and implicit run-time check decided by an SMT solver (z3 5.1), counterexamples replayed natively"})
m={"version":1,
 "setup_cmd":"cd /verif/engine && GOFLAGS=-mod=mod GOPROXY=off GOSUMDB=off GOTOOLCHAIN=local go build -o ../bin/symgo .",
 "hooks":{"guard":"verif","enable":"harness files (//go:build verif) are injected with go/packages Overlay for the engine and with `go test -tags verif -overlay` for native replays; nothing is written under /repo","baseline_off_cmd":"cd /repo && go test -mod=mod -vet=off -count=1 ./...","source_commits":[],"add_only":True},
 "engines":[{"name":"symgo","path":"engine","serves_properties":sorted(claimed),"kind_free_text":"purpose-built symbolic executor for go/ssa (x/tools v0.29.0): path forking by re-execution, bit-vector SMT-LIB2 over a z3 -in pipe, native replay of models via go test -overlay"}],
 "checks":checks,
 "notes":"exit 0 = holds within the stated bounds; exit 1 + VIOLATION line = natively reproduced counterexample; exit 2 = inconclusive (unsupported construct, solver unknown, budget exceeded, unreproduced counterexample) — never used as success.",
 "not_applicable":[{"property_id":k,"reason":v} for k,v in na.items()]}
json.dump(m,open('/verif/MANIFEST.json','w'),indent=1)
print("claimed",sorted(claimed),"na",sorted(na))
