#!/bin/bash
# usage: tools/seed_recheck.sh <seeded-name> <prop> [tier]   or   tools/seed_recheck.sh <seeded-name> -h <harness-regex>
# Re-runs a check (or single harnesses) against a stored seeded change, in a scratch worktree of /repo.
set -u
export GOFLAGS=-mod=mod GOPROXY=off GOSUMDB=off GOTOOLCHAIN=local
name=$1; shift
EV=/tmp/evalrepo_${name}_$$
git -C /repo worktree add -q --detach $EV HEAD && git -C $EV apply /verif/seeded/$name/patch.diff || { echo "patch does not apply"; git -C /repo worktree remove --force $EV; exit 2; }
cd /verif
if [ "$1" = "-h" ]; then
  VERIF_REPO=$EV timeout 1500 ./bin/symgo run -harness "$2" 2>&1 | grep -vE "^loaded in" | cut -c1-300 | tail -${3:-25}
else
  VERIF_REPO=$EV VERIF_DIR_EVID=1 timeout 1500 ./bin/symgo check $1 ${2:-quick} > /tmp/recheck_$$.out 2>&1
  rc=$?   # (no pipe on the check itself: a reader that stops early would kill it with SIGPIPE)
  grep -E "^(VIOLATION|exit|INCONCLUSIVE|KNOWN|  detail)" /tmp/recheck_$$.out | cut -c1-300 | head -8
  rm -f /tmp/recheck_$$.out
  echo "exit $rc"
fi
git -C /repo worktree remove --force $EV
