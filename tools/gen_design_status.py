#!/usr/bin/env python3
# regenerates the status table of DESIGN.md §0 from the harness sources and the evidence files
import re,glob,json,os
os.chdir('/verif')
rows={}
for f in sorted(glob.glob('harness/*/c[0-9][0-9]_*.go')):
    pkg=f.split('/')[1]
    for m in re.finditer(r'^func (C(\d\d)_\w+)\(\)', open(f).read(), re.M):
        rows.setdefault('C'+m.group(2),[]).append(pkg+'.'+m.group(1))
lines=["| id | harnesses (package.function) | quick wall (last evidence) |","|---|---|---|"]
for pid in sorted(rows):
    wall='?'
    try:
        e=json.load(open(f'evidence/{pid}.json'))
        if e.get('tier')=='quick': wall=f"{e['wall_s']:.0f} s"
        else: wall=f"({e['tier']}: {e['wall_s']:.0f} s)"
    except Exception: pass
    lines.append(f"| {pid} | {', '.join(rows[pid])} | {wall} |")
table="\n".join(lines)
s=open('DESIGN.md').read()
b='<!-- status-table:begin -->'; e='<!-- status-table:end -->'
if b in s:
    s=s[:s.index(b)+len(b)]+"\n"+table+"\n"+s[s.index(e):]
else:
    i=s.index('| id | harnesses (package.function) | decided for | quick wall |')
    j=s.index('\n\n',i)
    s=s[:i]+b+"\n"+table+"\n"+e+s[j:]
open('DESIGN.md','w').write(s)
print(len(rows),'properties',sum(len(v) for v in rows.values()),'harnesses')
