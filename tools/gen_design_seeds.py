#!/usr/bin/env python3
# Rewrites Appendix D of DESIGN.md from /verif/seeded/*/meta.json
import json,glob,os,re
rows=[]
for d in sorted(glob.glob('/verif/seeded/*')):
    m=json.load(open(d+'/meta.json'))
    rows.append((m['property'],os.path.basename(d),m['change'],m['needs_to_manifest'],m['result']))
rows.sort()
t="## Appendix D — seeded changes and which checks catch them\n\n"
t+="Each change below was written by an independent sub-agent that saw only the property text and a scratch\nworktree; each compiles, passes the existing suite, and comes with a demonstration test that fails with it\nand passes without it (re-confirmed by `tools/seed_eval.sh`).  Patch, demonstration and metadata are under\n`/verif/seeded/<name>/`.  \"MISSED at first\" rows are the ones that made a harness stronger; after the\nstrengthening every listed change is reported as `VIOLATION` (exit 1) by the named check.\n\n"
t+="| property | seeded change (`seeded/<name>`) | what it needs to manifest | outcome |\n|---|---|---|---|\n"
for p,n,c,need,res in rows:
    t+=f"| {p} | `{n}`: {c} | {need} | {res} |\n"
t+="\nHand-made mutations used while building (all caught): `HeaderSize` `<126`→`<=126` (C01); skipping `CheckHeader` for continuations (C05); `reserve` threshold `<=`→`<` and `Flush` not resetting `fseq` (C06); one `utf8d` class entry (C07); reverting each of the 18 fixes; `string(selected)`→`btsToString(selected)`, dropping `SelectCopy`, `btsToString` close reason (C17); a package-level header scratch buffer and an early `pbytes.Put` (C19).\n\n"
p='/verif/DESIGN.md'
s=open(p).read()
a=s.index('## Appendix D')
b=s.index('## Appendix E')
s=s[:a]+t+s[b:]
open(p,'w').write(s)
print(len(rows),'rows')
