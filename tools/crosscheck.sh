#!/bin/bash
# Re-decides a fixed list of harnesses with the three available solvers and compares the outcomes
# (paths explored, violations). Any difference, unknown or error is printed and makes the exit code 2.
cd /verif
H='C01_encode_layout|C01_decoders_agree|C03_checkheader_exact|C07_dfa_bisimulation|C05_reject_step|C06_size_exact|C13_bits_exact|C14_malformed'
rc=0
for s in z3-new z3 cvc5; do
  timeout 1500 ./bin/symgo run -solver $s -harness "$H" -timeout 20m 2>/dev/null | grep -E "^(ws|wsutil|wsflate)\." | sed -E 's/ instrs=.*//' > /tmp/cross_$s.txt
  ./bin/symgo run -solver $s -harness "$H" -timeout 20m 2>/dev/null | grep -cE "VIOL|ERROR" > /tmp/cross_viol_$s.txt
done
for s in z3 cvc5; do
  if ! diff -q /tmp/cross_z3-new.txt /tmp/cross_$s.txt >/dev/null; then echo "DIFFERENCE z3-new vs $s"; diff /tmp/cross_z3-new.txt /tmp/cross_$s.txt; rc=2; fi
  if [ "$(cat /tmp/cross_viol_z3-new.txt)" != "$(cat /tmp/cross_viol_$s.txt)" ]; then echo "violation/error count differs for $s"; rc=2; fi
done
cat /tmp/cross_z3-new.txt
echo "crosscheck exit $rc"
exit $rc
