#!/bin/bash
# usage: tools/mut2.sh <file-in-repo> <sed-expr> <harness-regex>  -- mutate a scratch worktree (not /repo), run harnesses, drop it
f=$1; expr=$2; re=$3
export GOFLAGS=-mod=mod GOPROXY=off GOSUMDB=off GOTOOLCHAIN=local
W=/tmp/mut2_$$; git -C /repo worktree add -q --detach $W HEAD || exit 2
(cd $W && sed -i "$expr" "$f" && git diff --stat | head -2; if git diff --quiet; then echo "MUTATION DID NOT APPLY"; fi; go build ./... 2>&1 | head -3; go test -count=1 ./... 2>&1 | grep -v "no test files" | grep -c "^ok" )
cd /verif && VERIF_REPO=$W timeout 900 ./bin/symgo run -harness "$re" 2>&1 | grep -E "VIOL|^[a-z]+\.C" | cut -c1-200 | head -4
git -C /repo worktree remove --force $W
