#!/bin/bash
# runs every claimed check at the given tier and prints one line per property
tier=${1:-quick}
cd /verif
for p in $(python3 -c "import json;print(' '.join(c['property_id'] for c in json.load(open('MANIFEST.json'))['checks']))"); do
  s=$(date +%s)
  out=$(timeout 7200 ./bin/symgo check $p $tier 2>&1); rc=$?
  e=$(( $(date +%s) - s ))
  echo "$p exit=$rc ${e}s $(echo "$out" | grep -E '^property=' | sed 's/.*harnesses/harnesses/')"
  echo "$out" | grep -E "^(VIOLATION|INCONCLUSIVE)" | cut -c1-200 | head -3
done
