#!/bin/bash
# usage: tools/mut.sh <file-in-repo> <sed-expr> <prop> [tier]   -- apply a mutation, run a check, revert
f=$1; expr=$2; prop=$3; tier=${4:-quick}
cd /repo && sed -i "$expr" "$f" && git diff --stat | head -3
if git diff --quiet; then echo "MUTATION DID NOT APPLY"; exit 3; fi
(cd /repo && go build ./... 2>&1 | head -5)
cd /verif && (timeout 1200 ./bin/symgo check $prop $tier; echo "exit $?") 2>&1 | grep -E "^(VIOLATION|exit|INCONCLUSIVE|KNOWN)" | head -8
git -C /repo checkout -- .
