#!/usr/bin/env python3
# usage: tools/seed_mkprompt.py <suffix> <hint-file|-> <prop> [<prop>...]
# For each property: creates the scratch worktree /tmp/seed/<prop><suffix> of /repo and writes
# /tmp/seed/prompt_<prop><suffix>.txt from tools/seed_prompt.tmpl + tools/props/prop_<prop>.txt,
# followed by the list of ideas already taken for that property (seeded/*/meta.json) and a hint.
import sys, os, json, glob, subprocess
suffix, hintf, props = sys.argv[1], sys.argv[2], sys.argv[3:]
here = os.path.dirname(os.path.abspath(__file__))
tmpl = open(os.path.join(here, 'seed_prompt.tmpl')).read()
hint = open(hintf).read().strip() if hintf != '-' else ''
os.makedirs('/tmp/seed', exist_ok=True)
for p in props:
    d = f'/tmp/seed/{p}{suffix}'
    if not os.path.isdir(d):
        subprocess.check_call(['git', '-C', '/repo', 'worktree', 'add', '-q', '--detach', d, 'HEAD'])
    prop = open(os.path.join(here, 'props', f'prop_{p}.txt')).read().strip()
    taken = []
    for m in sorted(glob.glob(os.path.join(here, '..', 'seeded', '*', 'meta.json'))):
        j = json.load(open(m))
        if j.get('property') == p:
            taken.append(j['change'])
    s = tmpl.replace('@DIR@', d).replace('@PROP@', prop)
    s += '\n\nAdditional constraints: the following ideas are ALREADY TAKEN for this property — do something different from all of them:\n'
    s += ''.join(f'  - {t}\n' for t in taken)
    s += hint + '\n'
    open(f'/tmp/seed/prompt_{p}{suffix}.txt', 'w').write(s)
    print(p, len(taken), 'taken ->', f'/tmp/seed/prompt_{p}{suffix}.txt')
