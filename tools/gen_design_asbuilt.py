#!/usr/bin/env python3
# Inserts/refreshes an "As built" paragraph at the end of every per-property section of DESIGN.md
import re
claimed={}
SE="";NOTE=""
exec(open('/verif/tools/claims.py').read())
p='/verif/DESIGN.md'
s=open(p).read()
for cid,(text,note,ref) in claimed.items():
    m=re.search(r'^### '+cid+r' — .*$',s,re.M)
    if not m: print('no section',cid); continue
    nxt=re.search(r'^(### |## )',s[m.end():],re.M)
    end=m.end()+nxt.start()
    sec=s[m.start():end]
    sec=re.sub(r'\n\*\*As built \(generated from tools/claims.py\)\.\*\*.*?(?=\n\n(?:### |## )|\Z)','',sec,flags=re.S)
    body=text.replace(SE,'').strip()
    par="\n**As built (generated from tools/claims.py).**  "+body+"\n"
    sec=sec.rstrip('\n')+"\n"+par+"\n"
    s=s[:m.start()]+sec+s[end:]
open(p,'w').write(s)
print('ok')
