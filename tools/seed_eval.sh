#!/bin/bash
# usage: tools/seed_eval.sh <seed-dir> <name> <prop> [more props...]
# Confirms a seeded change (builds, suite passes, demo fails with / passes without), then runs the
# checks against it on /repo (applied temporarily) and stores it under /verif/seeded/<name>.
set -u
export GOFLAGS=-mod=mod GOPROXY=off GOSUMDB=off GOTOOLCHAIN=local
dir=$1; name=$2; shift 2
cd $dir || exit 2
demo=$(git ls-files --others --exclude-standard | grep zz_seed_demo_test.go | head -1)
[ -z "$demo" ] && { echo "no demo test found"; exit 2; }
pkgdir=./$(dirname $demo)
echo "== demo: $demo  (pkg $pkgdir)"
git diff -- . ':(exclude)*zz_seed_demo_test.go' > /tmp/seed_patch_$name.diff
[ -s /tmp/seed_patch_$name.diff ] || { echo "empty patch"; exit 2; }
echo "== with change: build + existing suite (demo moved aside)"
mv $demo /tmp/demo_$name.go
(go build ./... && go test -count=1 ./... 2>&1 | grep -v "no test files" | tail -5)
suite=$?
mv /tmp/demo_$name.go $demo
echo "== with change: demo must FAIL"
go test -count=1 -run 'Seed' $pkgdir 2>&1 | tail -4
echo "== without change: demo must PASS"
git apply -R /tmp/seed_patch_$name.diff   # (no git stash: the stash is shared by all worktrees)
go test -count=1 -run 'Seed' $pkgdir 2>&1 | tail -2
git apply /tmp/seed_patch_$name.diff
echo "== checks against the change applied to /repo"
EV=/tmp/evalrepo_$name; git -C /repo worktree add -q --detach $EV HEAD && git -C $EV apply /tmp/seed_patch_$name.diff || { echo "patch does not apply"; exit 2; }
mkdir -p /verif/seeded/$name
res=""
for p in "$@"; do
  out=$(cd /verif && VERIF_REPO=$EV VERIF_DIR_EVID=1 timeout 1500 ./bin/symgo check $p quick 2>&1; echo "exit $?")
  echo "$out" | grep -E "^(VIOLATION|exit|INCONCLUSIVE|KNOWN)" | cut -c1-300 | head -6
  echo "$out" | grep -E "^  detail" | head -2
  res="$res $p:$(echo "$out" | tail -1)"
done
git -C /repo worktree remove --force $EV
cp /tmp/seed_patch_$name.diff /verif/seeded/$name/patch.diff
cp $demo /verif/seeded/$name/$(basename $demo)
[ -f SEED_NOTES.md ] && cp SEED_NOTES.md /verif/seeded/$name/NOTES.md
echo "RESULT $name:$res"
